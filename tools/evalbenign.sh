#!/bin/bash
# evalbenign.sh <dir with patch.diff> <id>
# A behaviour-preserving change: apply it to /repo's working tree, run the repository's suite and
# every claimed quick check; every one must exit 0 (no alarm on code where the properties hold).
set -u
export GOFLAGS=-mod=mod GOPROXY=off GOSUMDB=off GOTOOLCHAIN=local
src="$1"; id="$2"
out="/verif/benign/$id"
git -C /repo diff --quiet || { echo "tree not clean"; exit 2; }
git -C /repo apply "$src/patch.diff" || { echo "BENIGN-REJECT $id: patch does not apply"; exit 3; }
trap 'git -C /repo checkout -- . ; git -C /repo clean -fdq' EXIT
(cd /repo && go test -count=1 ./... >/tmp/benign-suite.log 2>&1) || { echo "BENIGN-REJECT $id: repository suite fails with the change"; tail -5 /tmp/benign-suite.log; exit 3; }
mkdir -p "$out"; cp "$src/patch.diff" "$out/"; [ -f "$src/notes.md" ] && cp "$src/notes.md" "$out/"
res="{"
bad=0
for p in C01 C02 C03 C05 C08 C09 C11 C12 C14 C15 C16 C17 C18 C19; do
  (cd /verif && ./run.sh $p quick > /tmp/benign-$p.log 2>&1); rc=$?
  sig="$(grep -m1 '^violation:' /tmp/benign-$p.log | cut -c1-200)"
  echo "$id $p exit=$rc $sig"
  [ $rc -ne 0 ] && { bad=1; mkdir -p "$out/alarms"; grep -v '^KNOWN' /tmp/benign-$p.log | tail -40 > "$out/alarms/$p.log"; }
  res="$res\"$p\": $rc, "
done
res="${res%, }}"
echo "{\"id\": \"$id\", \"kind\": \"behaviour-preserving change written by an independent sub-agent\", \"quick_check_exit_codes\": $res, \"any_alarm\": $bad}" > "$out/meta.json"
exit $bad
