#!/bin/bash
# evalbenign.sh <dir with patch.diff> <id>
# A behaviour-preserving change: apply it to a scratch worktree of /repo's HEAD, run the repository's
# suite there and every claimed quick check against that tree (VERIF_REPO); every one must exit 0
# (no alarm on code where the properties hold). /repo itself is not touched, so this can run while
# other checks use /repo.
set -u
export GOFLAGS=-mod=mod GOPROXY=off GOSUMDB=off GOTOOLCHAIN=local
src="$1"; id="$2"
out="/verif/benign/$id"
W="$(mktemp -d /tmp/benign-XXXXXX)"; rmdir "$W"
git -C /repo worktree add -q --detach "$W" HEAD || { echo "worktree"; exit 2; }
trap 'git -C /repo worktree remove --force "$W" >/dev/null 2>&1; rm -rf "$W"' EXIT
git -C "$W" apply "$src/patch.diff" || { echo "BENIGN-REJECT $id: patch does not apply"; exit 3; }
(cd "$W" && go test -count=1 ./... >"$W/.suite.log" 2>&1) || { echo "BENIGN-REJECT $id: repository suite fails with the change"; tail -5 "$W/.suite.log"; exit 3; }
rm -f "$W/.suite.log"
mkdir -p "$out"; cp "$src/patch.diff" "$out/"; [ -f "$src/notes.md" ] && cp "$src/notes.md" "$out/"
res="{"
bad=0
for p in C01 C02 C03 C05 C08 C09 C11 C12 C14 C15 C16 C17 C18 C19; do
  E="$(mktemp -d /tmp/benign-ev-XXXXXX)"
  (cd /verif && VERIF_REPO="$W" VERIF_EVIDENCE_DIR="$E" ./run.sh $p quick > "$E/log" 2>&1); rc=$?
  sig="$(grep -m1 '^violation:' "$E/log" | cut -c1-200)"
  echo "$id $p exit=$rc $sig"
  [ $rc -ne 0 ] && { bad=1; mkdir -p "$out/alarms"; grep -v '^KNOWN' "$E/log" | tail -40 > "$out/alarms/$p.log"; }
  rm -rf "$E"
  res="$res\"$p\": $rc, "
done
res="${res%, }}"
echo "{\"id\": \"$id\", \"kind\": \"behaviour-preserving change written by an independent sub-agent\", \"quick_check_exit_codes\": $res, \"any_alarm\": $bad}" > "$out/meta.json"
exit $bad
