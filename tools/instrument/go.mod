module verifinstrument

go 1.23
