#!/bin/bash
# evalmut.sh <property> <mutation dir with patch.diff + demo_test.go> <seeded id> [tier]
#
# 1. confirms in a scratch worktree of /repo's HEAD that the change compiles, that the
#    existing suite passes with it, that the demonstration passes without it and fails with it;
# 2. applies the patch to /repo's working tree, runs the property's check, undoes the patch;
# 3. stores patch, demonstration and meta.json under /verif/seeded/<id>/.
set -u
export GOFLAGS=-mod=mod GOPROXY=off GOSUMDB=off GOTOOLCHAIN=local
prop="$1"; src="$2"; id="$3"; tier="${4:-quick}"
VERIF=/verif
RACE=""; [ "$prop" = "C12" ] && RACE="-race"
W="$(mktemp -d /tmp/mut-eval-XXXXXX)"; rmdir "$W"
out="$VERIF/seeded/$id"
cleanup() { git -C /repo worktree remove --force "$W" >/dev/null 2>&1; rm -rf "$W"; }
trap cleanup EXIT

git -C /repo diff --quiet || { echo "EVAL-ERROR /repo working tree is not clean"; exit 2; }
git -C /repo worktree add -q --detach "$W" HEAD || { echo "EVAL-ERROR worktree"; exit 2; }

# demonstration on the pristine tree
cp "$src/demo_test.go" "$W/zz_demo_test.go"
tests="$(grep -oE '^func (Test[A-Za-z0-9_]+)' "$W/zz_demo_test.go" | awk '{print $2}' | paste -sd'|')"
[ -n "$tests" ] || { echo "EVAL-ERROR no test function in demo"; exit 2; }
(cd "$W" && go test $RACE -count=1 -run "^($tests)\$" . >"$W/.demo_pristine.log" 2>&1); demo_pristine=$?
rm "$W/zz_demo_test.go"

# the change: applies, compiles, suite passes
if ! git -C "$W" apply "$src/patch.diff" 2>"$W/.apply.log"; then
  echo "EVAL-REJECT $id: patch does not apply to HEAD: $(head -3 "$W/.apply.log")"; exit 3
fi
(cd "$W" && go build ./... >"$W/.build.log" 2>&1) || { echo "EVAL-REJECT $id: does not compile"; exit 3; }
(cd "$W" && go test -count=1 ./... >"$W/.suite.log" 2>&1); suite=$?
cp "$src/demo_test.go" "$W/zz_demo_test.go"
(cd "$W" && go test $RACE -count=1 -run "^($tests)\$" . >"$W/.demo_mut.log" 2>&1); demo_mut=$?
rm "$W/zz_demo_test.go"

echo "$id: demo on pristine exit=$demo_pristine (want 0); suite with change exit=$suite (want 0); demo with change exit=$demo_mut (want !=0)"
if [ $demo_pristine -ne 0 ] || [ $suite -ne 0 ] || [ $demo_mut -eq 0 ]; then
  echo "EVAL-REJECT $id: not a valid seeded change"
  tail -5 "$W/.demo_pristine.log" "$W/.suite.log" "$W/.demo_mut.log" 2>/dev/null | head -40
  exit 3
fi

# run the check against it
git -C /repo apply "$src/patch.diff" || { echo "EVAL-ERROR apply to /repo"; exit 2; }
start=$(date +%s)
# evidence of a run on a changed tree never lands in /verif/evidence
(cd "$VERIF" && VERIF_EVIDENCE_DIR="$W/.evidence" ./run.sh "$prop" "$tier" > "$W/.check.log" 2>&1); rc=$?
end=$(date +%s)
git -C /repo checkout -- . ; git -C /repo clean -fdq
viol="$(grep -m1 '^VIOLATION' "$W/.check.log")"
sig="$(grep -m1 '^violation:' "$W/.check.log" | sed 's/^violation: //')"
echo "$id: check $prop $tier exit=$rc in $((end-start))s ${viol:-no VIOLATION line} ${sig}"
mkdir -p "$out"
cp "$src/patch.diff" "$out/patch.diff"
cp "$src/demo_test.go" "$out/demo_test.go"
[ -f "$src/notes.md" ] && cp "$src/notes.md" "$out/notes.md"
python3 - "$out/meta.json" "$prop" "$id" "$tier" "$rc" "$sig" "$((end-start))" <<'EOF'
import json,sys,subprocess,os
path,prop,idv,tier,rc,sig,secs=sys.argv[1:8]
meta={}
if os.path.exists(path):
    meta=json.load(open(path))
meta.update({
 "id": idv, "breaks_property": prop,
 "source": "independent sub-agent given only the property text and a scratch worktree of /repo",
 "needs_to_manifest": open(os.path.join(os.path.dirname(path),"notes.md")).read()[:1500] if os.path.exists(os.path.join(os.path.dirname(path),"notes.md")) else "",
 "confirmed": "tools/evalmut.sh: patch applies to /repo HEAD %s, compiles, existing suite passes with it, demonstration passes without it and fails with it" % subprocess.run(["git","-C","/repo","rev-parse","--short","HEAD"],capture_output=True,text=True).stdout.strip(),
})
runs=meta.setdefault("check_runs",[])
runs.append({"cmd": "./run.sh %s %s"%(prop,tier), "exit": int(rc), "detected": int(rc)==1, "signature": sig, "seconds": int(secs)})
meta["detected"]=any(r["detected"] for r in runs)
json.dump(meta,open(path,"w"),indent=1)
EOF
tail -3 "$W/.check.log" | cut -c1-300
exit 0
