#!/bin/bash
# For every "fix:" commit of /repo: apply its reverse to the working tree, run the check of the
# property it was found by, expect a VIOLATION, and restore the tree. Shows that a fixed finding
# is reported again if it ever returns (a fixed entry in known_findings.json suppresses nothing).
set -u
cd /verif
python3 - <<'PY' > /tmp/fixes.txt
import json
d=json.load(open('/verif/known_findings.json'))
seen=set()
for f in d["findings"]:
    if f["status"]=="fixed" and (f["commit"],f["property"]) not in seen:
        seen.add((f["commit"],f["property"]))
        print(f["commit"], f["property"])
PY
rc=0
while read c p; do
  git -C /repo diff --quiet || { echo "tree not clean"; exit 2; }
  if ! git -C /repo show "$c" | git -C /repo apply -R 2>/dev/null; then echo "$c $p: reverse patch does not apply (later fix touches the same lines) - skipped"; continue; fi
  out="$(VERIF_EVIDENCE_DIR=/tmp/revert-fixes-evidence ./run.sh "$p" quick 2>&1)"; code=$?
  git -C /repo checkout -- .
  sig="$(echo "$out" | grep -m1 '^violation:' | cut -c1-160)"
  echo "$c $p: exit=$code $sig"
  [ $code -eq 1 ] || rc=1
done < /tmp/fixes.txt
exit $rc
