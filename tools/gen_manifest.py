#!/usr/bin/env python3
"""Writes /verif/MANIFEST.json from the table below (kept here so that the manifest
stays consistent while checks are added). Run from anywhere: python3 tools/gen_manifest.py"""
import json, os, subprocess

VERIF = os.path.dirname(os.path.dirname(os.path.abspath(__file__)))

TECH = "deterministic simulation with fault injection: seeded tape decides every operation, map-iteration order, schedule and fault; reference-model oracle; shrinking; exact replay"

# property -> (engine, design section, level text, level note, technique suffix)
CLAIMED = {
    "C14": ("E5-schema", "4/C14",
            "Seeded search over schema edit histories (1..40 edits over a colliding name pool) against a reference model, checked after every call or, in part of the runs, only after every 2nd-5th call (so that lazily maintained state is not tidied by the checker): no panic, failed edits leave the schema untouched, removals of absent things are no-ops, state equals the model, well-formedness invariants, lookups agree, two-way relationships succeed in any direction. Sampling, not enumeration: a clean batch is evidence, not proof.",
            "Trusts the reference model (~100 lines), the instrumenter (go/ast rewrite of a scratch copy; self-tested against the repo's own tests) and Go's runtime. Where the statement does not pin an outcome down the model follows the library and only invariants are checked.",
            "operation-history simulation vs reference model"),
    "C15": ("E5-schema", "4/C15",
            "Check() is evaluated on every schema state the seeded edit histories reach (including states after failed edits, arbitrary FromType, pre-populated types) under seeded map-iteration orders, against an independent count of offending relationships; also no panic, no mutation, same verdict under two map orders.",
            "The soundness/completeness law is a pure function of the state and is sampled on reachable states, not enumerated. 'Names it back' is read on names only; states whose only offence is a mis-typed reciprocal are not judged.",
            "state-invariant monitoring over simulated edit histories, seeded map-order scheduler"),
    "C16": ("E5-schema", "4/C16",
            "Seeded coherent schemas over names whose concatenations / underscore joins collide are built three times in permuted type and relationship order; Rels() under different seeded map orders must be one identical list with each one-way relationship once and one member of each pair (also after removals). The Invert/Normalize/String laws are evaluated on every relationship value created.",
            "Only fully consistent schemas are judged. The algebraic laws are sampled over a name pool chosen to collide, not enumerated over all strings.",
            "build-order and map-order permutation simulation, metamorphic oracle"),
    "C17": ("E6-resource", "4/C17",
            "A SoftResource and a Wrapper (run-time reflect.StructOf struct) of one generated type are driven in lock step by seeded histories of 1..40 well-typed Set calls (28 kinds, boundary values, typed/untyped nil, nil/empty lists, id) and compared with a model and with each other after every call (or every 2nd-4th); a fifth of the runs drive a soft resource alone through Set / RemoveField / AddAttr / AddRel histories that re-add removed names; fresh resources must be the type's zero; Equal/EqualStrict are checked for reflexivity, symmetry and 'differs => not equal' on pairs derived from the history.",
            "Values are sampled (boundary-biased), not enumerated. nil/empty byte strings and ID lists and typed/untyped nil are the same value. One open known finding (Equal ignores field names; pinned by TestEqual).",
            "lock-step operation-history simulation of two implementations vs reference model"),
    "C18": ("E6-resource", "4/C18",
            "After Copy / New / Type.Copy of a generated resource (soft or wrapped), seeded histories of 1..20 mutations (Set, type edits, MarshalResource with all relationship data, Filter '=' on a to-many, writes through slices obtained from Get) are applied to one side chosen per step while every other side's full observation is compared with its snapshot from just before the step; copy must equal source right after copying.",
            "Pointees of nullable scalar attributes are not mutated (the statement lists slices only). Sampling over types, values and mutation histories.",
            "aliasing simulation: mutate one handle, watch the other, over seeded histories"),
    "C19": ("E4-store", "4/C19",
            "Seeded histories of 1..40 store operations on one SoftCollection (Add of same/narrower/wider/conflicting resources, soft or wrapped, duplicate and empty IDs; Remove first/middle/last/absent/duplicate; AddAttr/AddRel; SetType on a non-empty collection; later Set on the caller's handle) incl. bulk grow / drain phases, against an ordered-list model, compared after every step or only every 2nd-5th step: Len, every At including out-of-range, Resource, type name, each stored resource's field set, definitions and values.",
            "A name that is both attribute and relationship is never generated; SetType installs types whose same-named fields keep their definitions; writes through slices shared with the caller are not part of the statement and not tested.",
            "operation-history simulation vs ordered-list reference model"),
    "C09": ("E4-store", "4/C09",
            "Range is issued as a read operation on the store states seeded histories reach (SoftCollection with lazily materialised zero values and fields added after storing) and on Resources / WrapperCollection twins holding the same records as wrapped structs; the page is checked by ranks against an independent select -> filter -> order reference, consecutive pages must partition the matches, a permuted initial order must not matter when id is a rule, the input collection must keep its members and order, no panic (a fatal runtime error that kills a worker is pinned to its run by bisection), non-nil result; pages returned earlier are re-read after later queries and ranged over as inputs.",
            "IDs unique (domain). Sort/filter semantics are sampled; what simulation contributes is the store states and the untouched-input clause. One open known finding (rules on uint64 / *uint64 / *[]byte attributes are skipped; pinned by TestSortResources), recognised only when the page is exactly what skipping those rules gives.",
            "query-on-simulated-store-states vs reference evaluator, rank-based oracle"),
    "C11": ("E1-doc", "4/C11",
            "Each seeded document+URL is marshaled twice, then as a deep-equal twin with to-many IDs / field-selection names / relationship-data names / included list permuted, then under adversarial map-iteration orders (sorted, reverse, shuffle, one site flipped) and after re-parsing the URL under another map order: all outputs must be byte-identical; a before/after snapshot of everything read from the resources and the URL must be unchanged (order-exempt parts compared as sets).",
            "Map order is a scheduler the simulator owns (every map-range site of the package (43 today) are rewritten in a scratch copy; stdlib json/url sort their keys). Included resources have distinct IDs. Inputs are sampled.",
            "seeded map-order scheduling + permutation metamorphism, byte-equality oracle"),
    "C03": ("E1-doc", "4/C03",
            "Documents are built through seeded histories of 0..12 Document.Include calls (repeats, primary-data resources, same ID under another type) on every primary-data collection kind incl. the Resources collection Range returns, marshaled under a seeded map order and checked by an independent JSON:API structure validator (top-level members, data xor errors, included only with data, resource/relationship object shape, self links) plus no duplicate type/ID across primary data and included.",
            "Well-formedness is monitored on sampled documents; the Include-history clause is what simulation decides. IDs non-empty; identifiers as primary data do not count as duplicates.",
            "Include-history simulation + independent structure validator"),
    "C01": ("E2-wire", "4/C01-C02",
            "Fault-free transport configuration: a resource with every field set (28 kinds, boundary values, exotic IDs) is marshaled by the real sender, delivered as the Body of an http.Request through a simulated io.ReadCloser that only fragments (1..k byte reads, zero-length reads, data+EOF), decoded by NewRequest/ReadAll and again by UnmarshalDocument under seeded map orders on both sides and a per-run time.Local; received type, ID and every value must equal what was sent.",
            "Values are sampled, not enumerated; the simulator contributes the delivery path, map order and ambient zone. To-many compared as sets, nil/empty bytes equal. Runs separately from the faulty configuration (C05).",
            "simulated transport (fault-free baseline) with sender/receiver running real code, equality oracle"),
    "C02": ("E2-wire", "4/C01-C02",
            "Fault-free transport configuration at document level: every primary-data kind with included, meta, resource meta, errors, prefix and field selection is sent through the simulated body to NewRequest (POST/PATCH); kind of primary data, resources in order with selected values, included set, meta and error objects must come back equal.",
            "Selected fields are those the parsed URL lists for the type; relationship values compared only when data was requested; nil and empty maps equal; documents are sampled.",
            "simulated transport (fault-free baseline), document-level equality oracle"),
    "C05": ("E2-wire", "4/C05",
            "Faulty transport configuration: valid messages produced by the real sender are delivered with swarm-chosen faults (truncation biased to structural bytes, read error after k bytes, bit flips/byte substitution, duplication, loss, reorder, splice of two messages, faulty sender mutating the JSON tree) to NewRequest, UnmarshalDocument and, for the data member, the five payload-level entry points; safety oracle only: no panic, error xor result, read errors propagated, every returned resource conforms to the schema.",
            "Decides C05 on byte strings reachable from valid messages by transport and sender faults, not on all byte strings in the abstract. One open known finding (bytes attribute: panic instead of error; pinned by TestAttrUnmarshalToType).",
            "fault injection on a simulated request body, safety oracle"),
    "C08": ("E3-url", "4/C08",
            "Each seeded raw URL (any accepted path shape; fields / sort / include / page / filter label or and-or tree; reserved characters percent-encoded) is parsed and printed in 1..6 variants that differ only in the order of differently named parameters, of names inside fields / include lists and in empty list items, every parse and String() under its own seeded map-iteration order: all variants must be accepted or rejected together and print the same text; String() must parse back to the same URL and print the same text again.",
            "The seam-dependent clause (parameter / list order reaches the library as map iteration order) is decided by simulation; the fixed-point law is monitored on sampled URLs. Parse errors/panics are outside C08. One open known finding (a type without fields prints as a truncated parameter; pinned by golden files).",
            "seeded map-order scheduling + parameter-order metamorphism, fixed-point oracle"),
    "C12": ("E7-conc", "4/C12",
            "2..16 caller tasks (real goroutines, -race build) run seeded lists of the property's read-only operations with private inputs against one shared schema; a seeded scheduler (uniform, PCT priorities, round-robin quantum, run-to-completion; explicit shrinkable prefix) decides at every instrumented function entry / loop iteration who runs next, passing the token over raw pipes so that no happens-before edge hides a race. Oracles: race detector report with a package frame, deep write detector on the shared schema after every scheduler step, per-operation result equal to a solo control run, no panic.",
            "One task runs at a time; yield points are function entries and loop iterations. The race detector is sound but incomplete (bounded shadow memory, sync.Pool edges); the write detector cannot see same-value writes or closure state. A clean batch is evidence over the sampled schedules, not proof.",
            "seeded goroutine-interleaving simulation (token passing without happens-before) + race detector + write detector + solo-result oracle"),
}

NA = {
    "C04": "pure function of one resource and one field selection: no schedule, history, fault or stream in the statement; the only seam on the path (map order) cannot change which names match. Input generation alone would be a different technique.",
    "C06": "Attr.UnmarshalToType is a pure, loop-free function of (kind, literal); the claim is exhaustive over literals, which seeded simulation neither enumerates nor needs a simulator for.",
    "C07": "URL parsing is a pure function of (string, schema); panics and structural invariants are per-input facts with no interleaving, clock, fault or history to explore.",
    "C10": "IsAllowed is a pure predicate of (resource value, filter tree); its independent evaluator is part of C09's oracle, but the universal algebraic claim is not what simulation decides.",
    "C13": "partial unmarshaling is a pure function of the payload; nothing stateful, concurrent or stream-dependent in the statement.",
    "C20": "Check/Wrap/BuildType are pure functions of a reflect.Type; the quantifier is over programs (struct declarations), not over runs of anything.",
}

PLANNED = []


HIST = " In a quarter of the runs the schema is reached through a longer edit history (scaffold types added and removed, fields added later or added and removed) with the same final content."

# sentences added to the level text as workloads were widened
EXTRA = {
    "C09": " One filter object serves all calls of a query and is then re-targeted (in-lists replaced by others of the same length) and used again; a third of the wrappers of a twin collection are added blank and filled afterwards.",
    "C18": " For Type.Copy, what New() of the other type makes is compared before and after every type edit.",
    "C16": " In part of the builds the names are first held by other relationships, Rels() is looked at, they are removed and the real ones added.",
    "C15": " Now and then 8..24 types are added at once; the read-only clause includes the nil-ness of field maps. Now and then the caller re-keys a type's Rels map (a relationship is what its Rel value says, whatever key it sits under).",
    "C17": " At the end GetType().New() of every twin and New() of a type derived from the used soft type must be blank resources of their type. In half of the runs a third twin is a Wrapper made from a struct value (Wrap copies it); types may have relationships only.",
    "C08": " Names that need escaping in a quarter of the runs; in a fifth of the runs the schema is edited and the same raw URL parsed again. Filter objects are written with their members in any order, now and then with white space." + HIST,
    "C01": HIST + " A refusal of a valid schema, URL or document is a violation. A third of the wrapped structs are filled through the caller's pointer after Wrap; some names look like json tags with options. Now and then the schema's soft type is edited (one attribute removed, one added) while the sender's resource is alive and untouched.",
    "C02": HIST + " A refusal of a valid schema, URL or document is a violation.", "C05": HIST,
    "C03": HIST + " Documents may carry top-level links of their own; in a third of the runs the same resources are marshaled again under another prefix.",
    "C11": HIST + " Documents may carry top-level links of their own; names that need escaping in a quarter of the runs.",
    "C12": HIST + " URLs carry filter objects with fresh texts, inclusion paths and (a third of the schemas) a relationship without FromType; an eighth of the runs are cold starts (no library code runs in the driver before the tasks; soft-only schema; hand-written payloads). MarshalDocument is now and then given a page of 100..500 resources (rarely in the quick tier, one run in four in the thorough tier). A run that does not return within 120 s is reported as a violation (all checks).",
}


def main():
    checks = []
    for pid in sorted(CLAIMED):
        eng, ref, text, note, tech = CLAIMED[pid]
        text += EXTRA.get(pid, "")
        checks.append({
            "property_id": pid,
            "quick_cmd": f"./run.sh {pid} quick",
            "thorough_cmd": f"./run.sh {pid} thorough",
            "evidence_file": f"/verif/evidence/{pid}.json",
            "replay_cmd_template": "./run.sh replay {path}",
            "engine": eng,
            "level_claimed": {"category": "exploration", "text": text, "design_ref": "DESIGN.md section " + ref},
            "level_note": note,
            "technique": "deterministic simulation with fault injection — " + tech,
        })
    na = [{"property_id": p, "reason": r} for p, r in sorted(NA.items())]
    for p in PLANNED:
        if p not in CLAIMED:
            na.append({"property_id": p, "reason": "not claimed yet: the engine that decides it by deterministic simulation is designed (DESIGN.md section 4) but not built at this commit"})
    na.sort(key=lambda x: x["property_id"])
    fixes = subprocess.run(["git", "-C", "/repo", "log", "--format=%h %s", "--grep=^fix:"], capture_output=True, text=True).stdout.strip().splitlines()
    man = {
        "version": 1,
        "setup_cmd": "./run.sh setup",
        "hooks": {
            "guard": "verif-scratch (no hook lives in /repo: every check copies /repo's working tree to a scratch directory, rewrites the copy with tools/instrument and builds against it; with both hook variables nil the copy behaves like the original)",
            "enable": "./run.sh <ID> quick|thorough instruments a fresh scratch copy of /repo's current working tree (map-range loops -> seeded order hook, function entries and loop bodies -> yield hook) and builds the engines against it",
            "baseline_off_cmd": "cd /repo && GOFLAGS=-mod=mod GOPROXY=off GOSUMDB=off go test -vet=off -count=1 ./...",
            "source_commits": [],
            "add_only": True,
        },
        "engines": [
            {"name": "E5-schema", "path": "sim/engines/e5schema", "serves_properties": ["C14", "C15", "C16"],
             "kind_free_text": "seeded edit histories on one Schema vs reference model; coherent-schema builder in permuted orders; seeded map-order scheduler"},
            {"name": "E6-resource", "path": "sim/engines/e6resource", "serves_properties": ["C17", "C18"],
             "kind_free_text": "SoftResource and Wrapper twins under one Set/Get history vs model; copy/new aliasing histories"},
            {"name": "E1-doc", "path": "sim/engines/e1doc", "serves_properties": ["C11", "C03"],
             "kind_free_text": "documents/URLs marshaled under seeded map orders and permutations; Include histories + structure validator"},
            {"name": "E2-wire", "path": "sim/engines/e2wire", "serves_properties": ["C01", "C02", "C05"],
             "kind_free_text": "real sender -> simulated request body (fragmentation; 8 fault kinds) -> real receiver; fault-free and faulty configurations run separately"},
            {"name": "E3-url", "path": "sim/engines/e3url", "serves_properties": ["C08"],
             "kind_free_text": "URL variants parsed/printed under seeded map orders; re-parse fixed point"},
            {"name": "E7-conc", "path": "sim/engines/e7conc + sim/sched", "serves_properties": ["C12"],
             "kind_free_text": "seeded scheduler over real goroutines in a -race build; HB-free token passing over raw pipes; write detector; solo oracle"},
            {"name": "E4-store", "path": "sim/engines/e4store", "serves_properties": ["C19", "C09"],
             "kind_free_text": "SoftCollection histories vs ordered-list model; Range queries on reached store states vs reference evaluator"},
        ],
        "checks": checks,
        "not_applicable": na,
        "notes": "All checks: exit 0 held / 1 VIOLATION line / 2 harness or build trouble. VERIF_SEED selects the batch; VERIF_REPO overrides /repo. "
                 "Open known findings (KNOWN-FINDING lines, exit 0): see known_findings.json. Sensitivity: seeded/ (253 changes from independent sub-agents: 246 detected by a quick check, 1 more by the thorough tier, 6 not, see DESIGN.md section 9), "
                 "benign/ (36 behaviour-preserving refactors by independent sub-agents, all 14 checks silent on each), tools/revert_fixes.sh. fix: commits in /repo: " + "; ".join(fixes),
    }
    with open(os.path.join(VERIF, "MANIFEST.json"), "w") as f:
        json.dump(man, f, indent=1)
        f.write("\n")


if __name__ == "__main__":
    main()
