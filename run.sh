#!/bin/bash
# Entry point of every check command registered in MANIFEST.json.
#
#   run.sh setup                      build the instrumenter, warm the Go build cache (incl. -race std)
#   run.sh <ID> quick|thorough        decide property <ID> on /repo's current working tree
#   run.sh replay <file>              replay a minimised failing tape against the current tree
#   run.sh hashes <ID> <from:count>   print per-run event hashes (determinism self-test)
#   run.sh selftest                   rewriter self-test + determinism self-test
#
# Exit codes: 0 held, 1 violation (VIOLATION line), 2 harness/build trouble (never a VIOLATION line).
set -u
VERIF="$(cd "$(dirname "${BASH_SOURCE[0]}")" && pwd)"
REPO="${VERIF_REPO:-/repo}"
export GOFLAGS=-mod=mod GOPROXY=off GOSUMDB=off GOTOOLCHAIN=local
export GOCACHE="${GOCACHE:-/root/.cache/go-build}"

die2() { echo "BUILD-FAILED $*" >&2; exit 2; }

build_instrumenter() {
  mkdir -p "$VERIF/.bin"
  if [ ! -x "$VERIF/.bin/instrument" ] || [ "$VERIF/tools/instrument/main.go" -nt "$VERIF/.bin/instrument" ]; then
    (cd "$VERIF/tools/instrument" && go build -o "$VERIF/.bin/instrument" .) || die2 "instrumenter does not build"
  fi
}

# prepare <scratch> [race]: instrumented copy of the working tree + engine binary
prepare() {
  local S="$1" race="${2:-}"
  build_instrumenter
  mkdir -p "$S/jsonapi" || die2 "cannot create scratch dir"
  local f
  for f in "$REPO"/*.go; do
    case "$f" in *_test.go) ;; *) cp "$f" "$S/jsonapi/" || die2 "copy";; esac
  done
  # sub-packages the root package may import (none today): copied as they are, minus their tests;
  # only the root package is instrumented
  (cd "$REPO" && find . -mindepth 2 -type f -not -path './.*/*' -not -path './examples/*' -not -path './testdata/*' -not -path './assets/*' -not -name '*_test.go' -print0 2>/dev/null | tar cf - --null -T - 2>/dev/null) | (cd "$S/jsonapi" && tar xf - 2>/dev/null)
  # the injected generic helper needs go >= 1.18; a tree that asks for a newer language version keeps it
  local gov; gov="$(awk '$1=="go"{print $2; exit}' "$REPO/go.mod" 2>/dev/null)"
  case "$gov" in 1.[0-9]|1.1[0-7]|"") gov=1.18;; esac
  if [ -f "$REPO/go.mod" ]; then
    sed "s/^go [0-9][0-9.]*\$/go $gov/" "$REPO/go.mod" > "$S/jsonapi/go.mod"
    [ -f "$REPO/go.sum" ] && cp "$REPO/go.sum" "$S/jsonapi/go.sum"
  else
    printf 'module github.com/mfcochauxlaberge/jsonapi\n\ngo %s\n' "$gov" > "$S/jsonapi/go.mod"
  fi
  export VERIF_TREE_HASH="$(cd "$S/jsonapi" && cat *.go | sha256sum | cut -c1-16)"
  cp "$VERIF/sim/hooks/zz_verif_sim.go.tmpl" "$S/jsonapi/zz_verif_sim.go"
  "$VERIF/.bin/instrument" -dir "$S/jsonapi" > "$S/instrument.log" 2>&1 || { cat "$S/instrument.log" >&2; die2 "instrumentation of the working tree failed"; }
  mkdir -p "$S/sim"
  (cd "$VERIF/sim" && tar cf - --exclude="*.tmpl" core world model wire sched engines cmd 2>/dev/null) | (cd "$S/sim" && tar xf -)
  cp "$VERIF/sim/go.mod.tmpl" "$S/sim/go.mod"
  local flags=""
  [ -n "$race" ] && flags="-race"
  (cd "$S/sim" && go build $flags -o "$S/simrun" ./cmd/simrun) > "$S/build.log" 2>&1 || { cat "$S/build.log" >&2; die2 "engine does not build against the working tree"; }
}

needs_race() { [ "$1" = "C12" ]; }

CLAIMED="C01 C02 C03 C05 C08 C09 C11 C12 C14 C15 C16 C17 C18 C19"

# The instrumented copy must pass the repository's own tests, with the hooks nil and
# with a shuffling map-order hook: if it ever disagrees with the original on the
# repo's own tests, the machinery is wrong, not the repo.
selftest_rewriter() {
  local S="$1" T="$1/rewriter"
  mkdir -p "$T"
  (cd "$REPO" && tar cf - --exclude=.git .) | (cd "$T" && tar xf -)
  sed -i 's/^go 1\.[0-9]*$/go 1.18/' "$T/go.mod"
  cp "$VERIF/sim/hooks/zz_verif_sim.go.tmpl" "$T/zz_verif_sim.go"
  "$VERIF/.bin/instrument" -dir "$T" > "$T/.instrument.log" 2>&1 || { cat "$T/.instrument.log" >&2; echo "SELFTEST-FAILED rewriter: instrumentation" >&2; return 2; }
  cat > "$T/zz_verif_hook_test.go" <<'EOT'
package jsonapi

import (
	"math/rand"
	"os"
)

func init() {
	if os.Getenv("VERIF_SHUFFLE") != "" {
		r := rand.New(rand.NewSource(7))
		SimMapOrder = func(site, n int) []int { return r.Perm(n) }
	}
}
EOT
  (cd "$T" && go test -vet=off -count=1 ./... > "$T/.nil.log" 2>&1) || { tail -30 "$T/.nil.log" >&2; echo "SELFTEST-FAILED rewriter: the instrumented copy fails the repository's tests with hooks nil" >&2; return 2; }
  (cd "$T" && VERIF_SHUFFLE=1 go test -vet=off -count=1 . > "$T/.shuffle.log" 2>&1) || { tail -30 "$T/.shuffle.log" >&2; echo "SELFTEST-FAILED rewriter: the instrumented copy fails the repository's tests under a shuffling map order" >&2; return 2; }
  rm -rf "$T"
  echo "selftest rewriter ok (repo tests pass on the instrumented copy: hooks nil, shuffled map order)"
}

# Unit tests of the machinery's own helpers (diagnoses of known findings ...), run
# against the instrumented copy like everything else.
selftest_units() {
  local S="$1"
  (cd "$S/sim" && go test -count=1 ./... > "$S/units.log" 2>&1) || { tail -30 "$S/units.log" >&2; echo "SELFTEST-FAILED units: the machinery's own unit tests fail" >&2; return 2; }
  echo "selftest units ok ($(grep -c '^ok' "$S/units.log") packages with tests)"
}

# Determinism: N runs of every property, twice each, in separate processes at
# GOMAXPROCS 1, 4 and 16; the per-run event-log hashes must be identical.
selftest_determinism() {
  local S="$1" N="$2" prop bin ref out g k
  for prop in $CLAIMED; do
    bin="$S/simrun"; needs_race "$prop" && bin="$S/simrun-race"
    ref=""
    for g in 1 4 16; do
      for k in 1 2; do
        out="$(GOMAXPROCS=$g "$bin" -property "$prop" -hashes "0:$N" -known "$VERIF/known_findings.json" 2>&1)" || { echo "$out" | tail -5 >&2; echo "SELFTEST-FAILED determinism: $prop died" >&2; return 2; }
        if [ -z "$ref" ]; then ref="$out"; elif [ "$out" != "$ref" ]; then
          echo "SELFTEST-FAILED determinism: $prop differs at GOMAXPROCS=$g run $k" >&2
          diff <(echo "$ref") <(echo "$out") | head -10 >&2
          return 2
        fi
      done
    done
  done
  echo "selftest determinism ok ($N runs x 6 processes x 14 properties, GOMAXPROCS 1/4/16)"
}

cmd="${1:-}"
case "$cmd" in
  setup)
    build_instrumenter
    S="$(mktemp -d "${TMPDIR:-/tmp}/verif-setup-XXXXXX")"
    trap 'rm -rf "$S"' EXIT
    prepare "$S" || exit 2
    echo "setup: $(cat "$S/instrument.log")"
    # warm the -race build cache (std + engines) so that the C12 check builds quickly
    (cd "$S/sim" && go build -race -o "$S/simrun-race" ./cmd/simrun) > "$S/build-race.log" 2>&1 || { cat "$S/build-race.log" >&2; die2 "race build failed"; }
    selftest_rewriter "$S" || exit 2
    selftest_units "$S" || exit 2
    selftest_determinism "$S" 12 || exit 2
    echo "setup ok"
    ;;
  selftest)
    build_instrumenter
    S="$(mktemp -d "${TMPDIR:-/tmp}/verif-selftest-XXXXXX")"
    trap 'rm -rf "$S"' EXIT
    prepare "$S" || exit 2
    (cd "$S/sim" && go build -race -o "$S/simrun-race" ./cmd/simrun) > "$S/build-race.log" 2>&1 || { cat "$S/build-race.log" >&2; die2 "race build failed"; }
    selftest_rewriter "$S" || exit 2
    selftest_units "$S" || exit 2
    selftest_determinism "$S" "${2:-40}" || exit 2
    echo "selftest ok"
    ;;
  replay)
    file="${2:?replay file}"
    prop="$(python3 -c 'import json,sys; print(json.load(open(sys.argv[1]))["property"])' "$file")" || die2 "unreadable replay file"
    S="$(mktemp -d "${TMPDIR:-/tmp}/verif-replay-XXXXXX")"
    trap 'rm -rf "$S"' EXIT
    if needs_race "$prop"; then prepare "$S" race; else prepare "$S"; fi
    "$S/simrun" -replay "$file" -known "$VERIF/known_findings.json"
    exit $?
    ;;
  hashes)
    prop="${2:?property}"; range="${3:?from:count}"
    S="$(mktemp -d "${TMPDIR:-/tmp}/verif-hash-XXXXXX")"
    trap 'rm -rf "$S"' EXIT
    if needs_race "$prop"; then prepare "$S" race; else prepare "$S"; fi
    "$S/simrun" -property "$prop" -hashes "$range" -known "$VERIF/known_findings.json"
    exit $?
    ;;
  C[0-9][0-9])
    prop="$cmd"; tier="${2:-${VERIF_TIER:-quick}}"
    S="$(mktemp -d "${TMPDIR:-/tmp}/verif-$prop-XXXXXX")"
    trap 'rm -rf "$S"' EXIT
    if needs_race "$prop"; then prepare "$S" race; else prepare "$S"; fi
    shift; shift 2>/dev/null
    "$S/simrun" -property "$prop" -tier "$tier" -evidence "${VERIF_EVIDENCE_DIR:-$VERIF/evidence}/$prop.json" \
        -known "$VERIF/known_findings.json" -replaydir "${VERIF_REPLAY_DIR:-$VERIF/replays}" "$@"
    exit $?
    ;;
  *)
    echo "usage: run.sh setup | <ID> quick|thorough | replay <file> | hashes <ID> from:count" >&2
    exit 2
    ;;
esac
