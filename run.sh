#!/bin/bash
# Entry point of every check command registered in MANIFEST.json.
#
#   run.sh setup                      build the instrumenter, warm the Go build cache (incl. -race std)
#   run.sh <ID> quick|thorough        decide property <ID> on /repo's current working tree
#   run.sh replay <file>              replay a minimised failing tape against the current tree
#   run.sh hashes <ID> <from:count>   print per-run event hashes (determinism self-test)
#   run.sh selftest                   rewriter self-test + determinism self-test
#
# Exit codes: 0 held, 1 violation (VIOLATION line), 2 harness/build trouble (never a VIOLATION line).
set -u
VERIF="$(cd "$(dirname "${BASH_SOURCE[0]}")" && pwd)"
REPO="${VERIF_REPO:-/repo}"
export GOFLAGS=-mod=mod GOPROXY=off GOSUMDB=off GOTOOLCHAIN=local
export GOCACHE="${GOCACHE:-/root/.cache/go-build}"

die2() { echo "BUILD-FAILED $*" >&2; exit 2; }

build_instrumenter() {
  mkdir -p "$VERIF/.bin"
  if [ ! -x "$VERIF/.bin/instrument" ] || [ "$VERIF/tools/instrument/main.go" -nt "$VERIF/.bin/instrument" ]; then
    (cd "$VERIF/tools/instrument" && go build -o "$VERIF/.bin/instrument" .) || die2 "instrumenter does not build"
  fi
}

# prepare <scratch> [race]: instrumented copy of the working tree + engine binary
prepare() {
  local S="$1" race="${2:-}"
  build_instrumenter
  mkdir -p "$S/jsonapi" || die2 "cannot create scratch dir"
  local f
  for f in "$REPO"/*.go; do
    case "$f" in *_test.go) ;; *) cp "$f" "$S/jsonapi/" || die2 "copy";; esac
  done
  printf 'module github.com/mfcochauxlaberge/jsonapi\n\ngo 1.18\n' > "$S/jsonapi/go.mod"
  export VERIF_TREE_HASH="$(cd "$S/jsonapi" && cat *.go | sha256sum | cut -c1-16)"
  cp "$VERIF/sim/hooks/zz_verif_sim.go.tmpl" "$S/jsonapi/zz_verif_sim.go"
  "$VERIF/.bin/instrument" -dir "$S/jsonapi" > "$S/instrument.log" 2>&1 || { cat "$S/instrument.log" >&2; die2 "instrumentation of the working tree failed"; }
  mkdir -p "$S/sim"
  (cd "$VERIF/sim" && tar cf - --exclude="*.tmpl" core world model wire sched engines cmd 2>/dev/null) | (cd "$S/sim" && tar xf -)
  cp "$VERIF/sim/go.mod.tmpl" "$S/sim/go.mod"
  local flags=""
  [ -n "$race" ] && flags="-race"
  (cd "$S/sim" && go build $flags -o "$S/simrun" ./cmd/simrun) > "$S/build.log" 2>&1 || { cat "$S/build.log" >&2; die2 "engine does not build against the working tree"; }
}

needs_race() { [ "$1" = "C12" ]; }

cmd="${1:-}"
case "$cmd" in
  setup)
    build_instrumenter
    S="$(mktemp -d "${TMPDIR:-/tmp}/verif-setup-XXXXXX")"
    trap 'rm -rf "$S"' EXIT
    prepare "$S" || exit 2
    echo "setup ok: $(cat "$S/instrument.log")"
    ;;
  replay)
    file="${2:?replay file}"
    prop="$(python3 -c 'import json,sys; print(json.load(open(sys.argv[1]))["property"])' "$file")" || die2 "unreadable replay file"
    S="$(mktemp -d "${TMPDIR:-/tmp}/verif-replay-XXXXXX")"
    trap 'rm -rf "$S"' EXIT
    if needs_race "$prop"; then prepare "$S" race; else prepare "$S"; fi
    "$S/simrun" -replay "$file" -known "$VERIF/known_findings.json"
    exit $?
    ;;
  hashes)
    prop="${2:?property}"; range="${3:?from:count}"
    S="$(mktemp -d "${TMPDIR:-/tmp}/verif-hash-XXXXXX")"
    trap 'rm -rf "$S"' EXIT
    if needs_race "$prop"; then prepare "$S" race; else prepare "$S"; fi
    "$S/simrun" -property "$prop" -hashes "$range" -known "$VERIF/known_findings.json"
    exit $?
    ;;
  C[0-9][0-9])
    prop="$cmd"; tier="${2:-${VERIF_TIER:-quick}}"
    S="$(mktemp -d "${TMPDIR:-/tmp}/verif-$prop-XXXXXX")"
    trap 'rm -rf "$S"' EXIT
    if needs_race "$prop"; then prepare "$S" race; else prepare "$S"; fi
    shift; shift 2>/dev/null
    "$S/simrun" -property "$prop" -tier "$tier" -evidence "$VERIF/evidence/$prop.json" \
        -known "$VERIF/known_findings.json" -replaydir "$VERIF/replays" "$@"
    exit $?
    ;;
  *)
    echo "usage: run.sh setup | <ID> quick|thorough | replay <file> | hashes <ID> from:count" >&2
    exit 2
    ;;
esac
