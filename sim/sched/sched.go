// Package sched is the S2 scheduler of engine E7: tasks are real goroutines
// running real library code in a -race build, exactly one runs at a time, and
// at every yield point a seeded policy decides who runs next.
//
// The hand-over must not create a happens-before edge, or the race detector
// would see the serialised execution as perfectly synchronised and report
// nothing. Channels, mutexes, atomics and syscall.Read/Write (which carry
// race.Acquire/ReleaseMerge) all create one. The token is therefore passed
// with raw syscall.Syscall(SYS_READ / SYS_WRITE) on one pipe per task, from
// //go:norace functions whose state is plain preallocated arrays.
package sched

import (
	"fmt"
	"sync"
	"syscall"
	"unsafe"
)

// MaxTasks bounds the number of tasks of one run.
const MaxTasks = 16

const driver = MaxTasks // pipe index of the driver

// Policies.
const (
	PolUniform = iota
	PolPCT
	PolRoundRobin
	PolSequential
	NumPolicies
)

// PolicyNames for traces.
var PolicyNames = []string{"uniform", "pct", "round-robin", "run-to-completion"}

// Config of one run, drawn from the tape by the engine before tasks start.
type Config struct {
	Tasks    int
	Policy   int
	Seed     uint64
	Quantum  int      // round-robin
	Change   []uint32 // PCT priority change points (step numbers)
	Prefix   []uint32 // explicit first decisions (shrinkable), then the policy
	MaxSteps int
	MapSeeds [MaxTasks]uint64 // per-task map-order streams
	MapPol   [MaxTasks]int    // per-task map-order policy: 0 sorted 1 reverse 2 shuffle 3 rotate
}

// all scheduler state: plain globals, touched only from norace functions once
// tasks run.
var (
	rfd, wfd   [MaxTasks + 1]int
	pipesOpen  bool
	active     bool
	nTasks     int
	cur        int
	done       [MaxTasks]bool
	prio       [MaxTasks]int
	cfg        Config
	rng        uint64
	steps      int
	switches   int
	sinceSw    int
	prefixPos  int
	schedHash  uint64
	overBudget bool
	mapCtr     [MaxTasks]uint64
	mapApplied int64
	mapNonID   int64
	stepHook   func(task int) // called on the running task's goroutine at every yield (write detector)
	buf        [MaxTasks + 1][1]byte
)

// Stats of the finished run.
type Stats struct {
	Steps, Switches int
	SchedHash       uint64
	OverBudget      bool
	MapApplied      int64
	MapNonIdentity  int64
}

func openPipes() {
	if pipesOpen {
		return
	}

	for i := 0; i <= MaxTasks; i++ {
		var p [2]int
		if err := syscall.Pipe(p[:]); err != nil {
			panic(fmt.Sprintf("sched: pipe: %v", err))
		}

		rfd[i], wfd[i] = p[0], p[1]
	}

	pipesOpen = true
}

//go:norace
func wake(i int) {
	buf[i][0] = 1

	for {
		n, _, e := syscall.Syscall(syscall.SYS_WRITE, uintptr(wfd[i]), uintptr(unsafe.Pointer(&buf[i][0])), 1)
		if e == syscall.EINTR || (e == 0 && n == 0) {
			continue
		}

		if e != 0 {
			panic("sched: wake failed")
		}

		return
	}
}

//go:norace
func park(i int) {
	var b [1]byte

	for {
		n, _, e := syscall.Syscall(syscall.SYS_READ, uintptr(rfd[i]), uintptr(unsafe.Pointer(&b[0])), 1)
		if e == syscall.EINTR {
			continue
		}

		if e != 0 || n != 1 {
			panic("sched: park failed")
		}

		return
	}
}

//go:norace
func next64() uint64 {
	rng += 0x9e3779b97f4a7c15
	z := rng
	z = (z ^ (z >> 30)) * 0xbf58476d1ce4e5b9
	z = (z ^ (z >> 27)) * 0x94d049bb133111eb

	return z ^ (z >> 31)
}

//go:norace
func runnable() (list [MaxTasks]int, n int) {
	for i := 0; i < nTasks; i++ {
		if !done[i] {
			list[n] = i
			n++
		}
	}

	return list, n
}

// pick decides who runs next. me is the running task (-1: nobody, at start or
// after a task finished).
//
//go:norace
func pick(me int) int {
	list, n := runnable()
	if n == 0 {
		return -1
	}

	if n == 1 {
		return list[0]
	}

	if prefixPos < len(cfg.Prefix) {
		c := list[int(cfg.Prefix[prefixPos])%n]
		prefixPos++

		return c
	}

	switch cfg.Policy {
	case PolSequential:
		if me >= 0 && !done[me] {
			return me
		}

		return list[0]
	case PolRoundRobin:
		if me >= 0 && !done[me] && sinceSw < cfg.Quantum {
			return me
		}

		for k := 1; k <= nTasks; k++ {
			c := (me + k + nTasks) % nTasks
			if !done[c] {
				return c
			}
		}

		return list[0]
	case PolPCT:
		for _, cp := range cfg.Change {
			if int(cp) == steps && me >= 0 {
				// lower the running task below everybody
				min := prio[0]
				for i := 1; i < nTasks; i++ {
					if prio[i] < min {
						min = prio[i]
					}
				}

				prio[me] = min - 1
			}
		}

		best := list[0]
		for i := 1; i < n; i++ {
			if prio[list[i]] > prio[best] {
				best = list[i]
			}
		}

		return best
	default:
		return list[int(next64()%uint64(n))]
	}
}

// Yield is installed as the library's yield hook.
//
//go:norace
func Yield(site int) {
	if !active {
		return
	}

	me := cur
	steps++
	sinceSw++
	schedHash = (schedHash ^ uint64(me*1000003+site)) * 1099511628211

	if h := stepHook; h != nil {
		h(me)
	}

	if steps > cfg.MaxSteps {
		overBudget = true
		// stop switching: let everything run to completion
		return
	}

	nx := pick(me)
	if nx == me || nx < 0 {
		return
	}

	switches++
	sinceSw = 0
	cur = nx
	wake(nx)
	park(me)
}

//go:norace
func finish(me int) {
	done[me] = true
	sinceSw = 0

	nx := pick(-1)
	if nx < 0 {
		active = false
		wake(driver)

		return
	}

	cur = nx
	wake(nx)
}

// MapOrder is installed as the library's map-order hook while tasks run: each
// task has its own stream, so hook state is never shared between goroutines,
// and the solo control run (same task number, counter reset) sees the same
// orders.
//
//go:norace
func MapOrder(site, n int) []int {
	t := cur
	if t < 0 || t >= MaxTasks {
		return nil
	}

	mapCtr[t]++
	mapApplied++

	var p []int

	switch cfg.MapPol[t] {
	case 0:
		return nil
	case 1:
		p = make([]int, n)
		for i := range p {
			p[i] = n - 1 - i
		}
	case 3:
		s := cfg.MapSeeds[t] + mapCtr[t]*0x9e3779b97f4a7c15
		s = (s ^ (s >> 30)) * 0xbf58476d1ce4e5b9
		r := int((s ^ (s >> 27)) % uint64(n))

		if r == 0 {
			return nil
		}

		p = make([]int, n)
		for i := range p {
			p[i] = (i + r) % n
		}
	default:
		p = make([]int, n)
		for i := range p {
			p[i] = i
		}

		s := cfg.MapSeeds[t] ^ (mapCtr[t] * 0xd6e8feb86659fd93)

		for i := n - 1; i > 0; i-- {
			s += 0x9e3779b97f4a7c15
			z := s
			z = (z ^ (z >> 30)) * 0xbf58476d1ce4e5b9
			z = (z ^ (z >> 27)) * 0x94d049bb133111eb
			j := int((z ^ (z >> 31)) % uint64(i+1))
			p[i], p[j] = p[j], p[i]
		}
	}

	for i, v := range p {
		if i != v {
			mapNonID++
			break
		}
	}

	return p
}

// StepNo is the global step counter (for ordering detections across tasks).
//
//go:norace
func StepNo() int { return steps }

// SoloTask prepares the hooks' per-task state for the sequential control run
// of one task: same task number, counter reset.
//
//go:norace
func SoloTask(c Config, t int) {
	cfg = c
	cur = t
	mapCtr[t] = 0
}

// Run starts one goroutine per task, runs them under the policy until all have
// finished, and returns the schedule statistics. body(i) is task i's code; it
// runs on its own goroutine. step, if not nil, is called on the running task's
// goroutine at every yield.
func Run(c Config, body func(task int), step func(task int)) Stats {
	openPipes()

	cfg = c
	nTasks = c.Tasks
	rng = c.Seed
	steps, switches, sinceSw, prefixPos = 0, 0, 0, 0
	schedHash = 14695981039346656037
	overBudget = false
	mapApplied, mapNonID = 0, 0
	stepHook = step

	for i := 0; i < MaxTasks; i++ {
		done[i] = i >= nTasks
		prio[i] = int(Mix(c.Seed, uint64(i)) % 1000)
		mapCtr[i] = 0
	}

	var wg sync.WaitGroup

	for i := 0; i < nTasks; i++ {
		wg.Add(1)

		go func(i int) {
			park(i)
			body(i)
			wg.Done() // results of this task happen-before the driver's Wait
			finish(i)
		}(i)
	}

	first := pick(-1)
	cur = first
	active = true
	wake(first)
	park(driver)
	wg.Wait()

	active = false
	stepHook = nil

	return Stats{Steps: steps, Switches: switches, SchedHash: schedHash, OverBudget: overBudget, MapApplied: mapApplied, MapNonIdentity: mapNonID}
}

// Mix derives a value from a seed and a stream number.
func Mix(seed, n uint64) uint64 {
	s := seed ^ (n+1)*0xd6e8feb86659fd93
	s += 0x9e3779b97f4a7c15
	z := s
	z = (z ^ (z >> 30)) * 0xbf58476d1ce4e5b9
	z = (z ^ (z >> 27)) * 0x94d049bb133111eb

	return z ^ (z >> 31)
}
