package world

import (
	"fmt"
	"reflect"
	"sort"
	"strconv"
	"strings"

	"github.com/mfcochauxlaberge/jsonapi"

	"verifsim/core"
)

// AttrSpec / RelSpec / TypeSpec / SchemaSpec: plain data drawn from the tape.
type AttrSpec struct {
	Name     string
	Kind     int
	Nullable bool
}

type RelSpec struct {
	Name    string
	ToType  string
	ToOne   bool
	ToName  string // inverse name, "" for one-way
	FromOne bool
}

type TypeSpec struct {
	Name   string
	Attrs  []AttrSpec
	Rels   []RelSpec
	Struct bool // realised as a reflect.StructOf struct type (else as a soft type)

	goType reflect.Type // cached struct type
}

type SchemaSpec struct {
	Types []*TypeSpec
}

// Type returns the spec of a type.
func (s *SchemaSpec) Type(name string) *TypeSpec {
	for _, t := range s.Types {
		if t.Name == name {
			return t
		}
	}

	return nil
}

// Attr returns an attribute spec.
func (t *TypeSpec) Attr(name string) *AttrSpec {
	for i := range t.Attrs {
		if t.Attrs[i].Name == name {
			return &t.Attrs[i]
		}
	}

	return nil
}

// Rel returns a relationship spec.
func (t *TypeSpec) Rel(name string) *RelSpec {
	for i := range t.Rels {
		if t.Rels[i].Name == name {
			return &t.Rels[i]
		}
	}

	return nil
}

// Fields returns all field names, sorted.
func (t *TypeSpec) Fields() []string {
	var fs []string

	for _, a := range t.Attrs {
		fs = append(fs, a.Name)
	}

	for _, r := range t.Rels {
		fs = append(fs, r.Name)
	}

	sort.Strings(fs)

	return fs
}

// Describe renders a type spec for traces.
func (t *TypeSpec) Describe() string {
	var sb strings.Builder

	kind := "soft"
	if t.Struct {
		kind = "struct"
	}

	fmt.Fprintf(&sb, "%s type %q {", kind, t.Name)

	for _, a := range t.Attrs {
		fmt.Fprintf(&sb, " %q:%s", a.Name, KindName(a.Kind, a.Nullable))
	}

	for _, r := range t.Rels {
		card := "many"
		if r.ToOne {
			card = "one"
		}

		fmt.Fprintf(&sb, " %q->%s %q", r.Name, card, r.ToType)

		if r.ToName != "" {
			fmt.Fprintf(&sb, "(inv %q)", r.ToName)
		}
	}

	sb.WriteString(" }")

	return sb.String()
}

// Name pools. Plain names are JSON:API member names that are also safe inside
// struct tags and URLs; exotic names need JSON escaping.
var (
	PlainNames  = []string{"a", "b", "c", "ab", "bc", "abc", "a-b", "a_b", "b_c", "n1", "x", "y", "z", "name", "size", "tags", "k9", "Name", "A", "aB", "Tags"}
	ExoticNames = []string{`q"uote`, `back\slash`, "sp ace", "é", "<html>", "a.b", "a/b", "t\tab", "世界", "a&b"}
)

// NameStyle selects a pool.
type NameStyle int

const (
	NamesPlain  NameStyle = iota // member names usable in URLs and struct tags
	NamesExotic                  // plus names that JSON must escape
)

func drawName(t *core.Tape, style NameStyle, taken map[string]bool) string {
	for tries := 0; tries < 12; tries++ {
		var n string

		if style == NamesExotic && t.Bool(1, 3) {
			n = ExoticNames[t.Draw(len(ExoticNames))]
		} else {
			n = PlainNames[t.Draw(len(PlainNames))]
		}

		if !taken[n] && n != "id" {
			taken[n] = true
			return n
		}
	}

	for i := 0; ; i++ {
		n := "f" + strconv.Itoa(i)
		if !taken[n] {
			taken[n] = true
			return n
		}
	}
}

// SchemaOptions bounds schema generation.
type SchemaOptions struct {
	MinTypes, MaxTypes int
	MaxAttrs, MaxRels  int
	MinAttrs           int
	Names              NameStyle
	AllowStruct        bool // some types are struct-backed
	ForceStruct        int  // -1 no constraint, 0 all soft, 1 all struct
	TwoWay             bool // generate two-way pairs
	TagOptions         bool // some attribute / one-way relationship names look like a json tag with an option ("a,omitempty")
}

// DrawSchema draws a coherent schema spec: every relationship points to an
// existing type and two-way pairs are consistent.
func DrawSchema(t *core.Tape, o SchemaOptions) *SchemaSpec {
	s := &SchemaSpec{}
	tn := map[string]bool{}
	n := t.Range(o.MinTypes, o.MaxTypes)

	for i := 0; i < n; i++ {
		ts := &TypeSpec{Name: drawName(t, o.Names, tn)}

		switch {
		case o.ForceStruct == 1:
			ts.Struct = true
		case o.ForceStruct == 0:
			ts.Struct = false
		default:
			ts.Struct = o.AllowStruct && t.Bool(1, 2)
		}

		if ts.Struct && strings.ContainsAny(ts.Name, ",") {
			ts.Struct = false
		}

		s.Types = append(s.Types, ts)
	}

	for _, ts := range s.Types {
		fn := map[string]bool{}

		// relationships added by pairs on earlier types already occupy names
		for _, r := range ts.Rels {
			fn[r.Name] = true
		}

		na := t.Range(o.MinAttrs, o.MaxAttrs)
		for i := 0; i < na; i++ {
			an := drawName(t, o.Names, fn)

			// The library takes the whole json tag as the field's name: `json:"a,omitempty"`
			// declares a field called "a,omitempty" (in the type BuildType builds and in the
			// wrapper alike). Such names are legal for soft types too.
			if o.TagOptions && t.Bool(1, 8) {
				an += ",omitempty"
			}

			ts.Attrs = append(ts.Attrs, AttrSpec{Name: an, Kind: t.Range(1, 14), Nullable: t.Bool(1, 2)})
		}

		nr := t.Range(0, o.MaxRels)
		for i := 0; i < nr; i++ {
			target := s.Types[t.Draw(len(s.Types))]
			r := RelSpec{Name: drawName(t, o.Names, fn), ToType: target.Name, ToOne: t.Bool(1, 2), FromOne: t.Bool(1, 2)}

			if o.TwoWay && t.Bool(1, 2) {
				// the inverse lives on the target type; its name must be free there
				tfn := map[string]bool{}
				for _, a := range target.Attrs {
					tfn[a.Name] = true
				}

				for _, tr := range target.Rels {
					tfn[tr.Name] = true
				}

				if target == ts {
					for k := range fn {
						tfn[k] = true
					}
				}

				inv := drawName(t, o.Names, tfn)
				r.ToName = inv
				target.Rels = append(target.Rels, RelSpec{Name: inv, ToType: ts.Name, ToOne: r.FromOne, ToName: r.Name, FromOne: r.ToOne})

				if target == ts {
					fn[inv] = true
				}
			}

			if o.TagOptions && r.ToName == "" && t.Bool(1, 8) {
				r.Name += ",omitempty" // one-way only: an inverse's name is written inside the api tag
			}

			ts.Rels = append(ts.Rels, r)
		}
	}

	// A pair added to a type processed earlier may now collide with an attribute
	// name drawn later on that type: attribute names were drawn with the
	// relationships known, and pairs check the target's names, so no collision
	// is possible; verify instead of trusting.
	for _, ts := range s.Types {
		seen := map[string]bool{}
		for _, f := range ts.Fields() {
			if seen[f] {
				panic(core.HarnessBug{Value: "DrawSchema produced duplicate field " + f + " in " + ts.Name})
			}

			seen[f] = true
		}
	}

	return s
}

// ---------------------------------------------------------------------------------------------
// materialisation

// GoStruct returns (and caches) the reflect.StructOf type of a struct-backed spec.
func (t *TypeSpec) GoStruct() reflect.Type {
	if t.goType != nil {
		return t.goType
	}

	idField := reflect.StructField{
		Name: "ID",
		Type: reflect.TypeOf(""),
		Tag:  reflect.StructTag(fmt.Sprintf(`json:"id" api:%s`, strconv.Quote(t.Name))),
	}

	var fields []reflect.StructField

	for i, a := range t.Attrs {
		fields = append(fields, reflect.StructField{
			Name: fmt.Sprintf("A%d", i),
			Type: GoType(a.Kind, a.Nullable),
			Tag:  reflect.StructTag(fmt.Sprintf(`json:%s api:"attr"`, strconv.Quote(a.Name))),
		})
	}

	for i, r := range t.Rels {
		api := "rel," + r.ToType
		if r.ToName != "" {
			api += "," + r.ToName
		}

		ft := reflect.TypeOf([]string(nil))
		if r.ToOne {
			ft = reflect.TypeOf("")
		}

		fields = append(fields, reflect.StructField{
			Name: fmt.Sprintf("R%d", i),
			Type: ft,
			Tag:  reflect.StructTag(fmt.Sprintf(`json:%s api:%s`, strconv.Quote(r.Name), strconv.Quote(api))),
		})
	}

	// nothing requires the ID to be the first field of a struct: its position
	// depends on the type's name
	pos := int(core.HashString(t.Name) % uint64(len(fields)+1))
	if core.HashString(t.Name)%3 == 0 {
		pos = 0
	}

	fields = append(fields[:pos:pos], append([]reflect.StructField{idField}, fields[pos:]...)...)
	t.goType = reflect.StructOf(fields)

	return t.goType
}

// SoftType materialises the spec as a jsonapi.Type through AddAttr / AddRel.
func (t *TypeSpec) SoftType() (jsonapi.Type, error) {
	typ := jsonapi.Type{Name: t.Name}

	for _, a := range t.Attrs {
		if err := typ.AddAttr(jsonapi.Attr{Name: a.Name, Type: a.Kind, Nullable: a.Nullable}); err != nil {
			return typ, err
		}
	}

	for _, r := range t.Rels {
		if err := typ.AddRel(t.JRel(r)); err != nil {
			return typ, err
		}
	}

	return typ, nil
}

// JRel renders a relationship spec as the library's Rel.
func (t *TypeSpec) JRel(r RelSpec) jsonapi.Rel {
	return jsonapi.Rel{FromType: t.Name, FromName: r.Name, ToOne: r.ToOne, ToType: r.ToType, ToName: r.ToName, FromOne: r.FromOne}
}

// Build materialises the spec as the library Type of its kind (BuildType for
// struct-backed types).
func (t *TypeSpec) Build() (jsonapi.Type, error) {
	if !t.Struct {
		return t.SoftType()
	}

	typ, err := jsonapi.BuildType(reflect.New(t.GoStruct()).Interface())
	if err != nil {
		return typ, err
	}

	// Struct tags cannot say whether the other end of a relationship is to-one;
	// the schema's owner sets FromOne by hand (as the repository's own mock schema
	// does), so a struct-backed type in a schema says more than Wrap reads from tags.
	for _, r := range t.Rels {
		if jr, ok := typ.Rels[r.Name]; ok && r.ToName != "" {
			jr.FromOne = r.FromOne
			typ.Rels[r.Name] = jr
		}
	}

	return typ, nil
}

// BuildSchema materialises a schema spec through AddType. typeOrder, when not
// nil, permutes the order in which types are added.
func (s *SchemaSpec) BuildSchema(typeOrder []int) (*jsonapi.Schema, error) {
	sc := &jsonapi.Schema{}

	for i := range s.Types {
		idx := i
		if typeOrder != nil {
			idx = typeOrder[i]
		}

		typ, err := s.Types[idx].Build()
		if err != nil {
			return nil, fmt.Errorf("build type %q: %v", s.Types[idx].Name, err)
		}

		if err := sc.AddType(typ); err != nil {
			return nil, err
		}
	}

	return sc, nil
}

// BuildSchemaHist reaches the schema BuildSchema builds through a longer history
// of edits, as a long-lived server does: scaffold types are added between the
// real ones and removed again (so that types move inside Schema.Types), the last
// attribute of a soft type is added after the type through Schema.AddAttr, and
// temporary fields are added to soft types and removed again. The final content
// is the same; what the library keeps about its own past must not matter.
// It returns the number of edits beyond the plain AddType calls.
func (s *SchemaSpec) BuildSchemaHist(t *core.Tape) (*jsonapi.Schema, int, error) {
	sc := &jsonapi.Schema{}
	edits := 0

	var (
		pending []string
		later   []func() error
	)

	nscaf := 0
	scaffold := func() error {
		name := fmt.Sprintf("scaffold%d", nscaf)
		nscaf++

		if s.Type(name) != nil {
			return nil
		}

		typ := jsonapi.Type{Name: name}
		if err := typ.AddAttr(jsonapi.Attr{Name: "title", Type: jsonapi.AttrTypeString}); err != nil {
			return err
		}

		if err := typ.AddRel(jsonapi.Rel{FromType: name, FromName: "next", ToOne: true, ToType: name}); err != nil {
			return err
		}

		pending = append(pending, name)
		edits++

		return sc.AddType(typ)
	}

	unscaffold := func() {
		k := t.Draw(len(pending))
		sc.RemoveType(pending[k])
		pending = append(pending[:k], pending[k+1:]...)
		edits++
	}

	for _, ts := range s.Types {
		ts := ts

		for n := 0; n < 3 && t.Bool(1, 3); n++ { // bounded: an exhausted tape yields zeros
			if err := scaffold(); err != nil {
				return nil, edits, err
			}
		}

		// soft types: the last or all attributes, and the last or all relationships,
		// are added after the type (through Schema.AddAttr / AddRel); a type whose
		// fields all come later is added with nil field maps
		heldA, heldR := len(ts.Attrs), len(ts.Rels)

		if !ts.Struct && len(ts.Attrs) > 0 && t.Bool(1, 2) {
			heldA = []int{len(ts.Attrs) - 1, 0}[t.Draw(2)]
		}

		if !ts.Struct && len(ts.Rels) > 0 && t.Bool(1, 3) {
			heldR = []int{len(ts.Rels) - 1, 0}[t.Draw(2)]
		}

		var (
			typ jsonapi.Type
			err error
		)

		if heldA < len(ts.Attrs) || heldR < len(ts.Rels) {
			short := *ts
			short.Attrs = ts.Attrs[:heldA]
			short.Rels = ts.Rels[:heldR]
			short.goType = nil
			typ, err = short.SoftType()
		} else {
			typ, err = ts.Build()
		}

		if err != nil {
			return nil, edits, fmt.Errorf("build type %q: %v", ts.Name, err)
		}

		if err := sc.AddType(typ); err != nil {
			return nil, edits, err
		}

		// a request is served before the schema is complete: the type is looked up
		if t.Bool(1, 2) {
			_ = sc.HasType(ts.Name)
			_ = sc.GetType(ts.Name)
		}

		for _, a := range ts.Attrs[heldA:] {
			a := a
			edits++

			later = append(later, func() error {
				return sc.AddAttr(ts.Name, jsonapi.Attr{Name: a.Name, Type: a.Kind, Nullable: a.Nullable})
			})
		}

		for _, r := range ts.Rels[heldR:] {
			r := r
			edits++

			later = append(later, func() error { return sc.AddRel(ts.Name, ts.JRel(r)) })
		}

		if !ts.Struct && ts.Attr("tmpattr") == nil && ts.Rel("tmpattr") == nil && ts.Attr("tmprel") == nil && ts.Rel("tmprel") == nil && t.Bool(1, 3) {
			if err := sc.AddAttr(ts.Name, jsonapi.Attr{Name: "tmpattr", Type: jsonapi.AttrTypeInt, Nullable: t.Bool(1, 2)}); err != nil {
				return nil, edits, err
			}

			if err := sc.AddRel(ts.Name, jsonapi.Rel{FromType: ts.Name, FromName: "tmprel", ToOne: t.Bool(1, 2), ToType: ts.Name}); err != nil {
				return nil, edits, err
			}

			edits += 2

			later = append(later, func() error {
				sc.RemoveAttr(ts.Name, "tmpattr")
				sc.RemoveRel(ts.Name, "tmprel")

				return nil
			})
		}

		if len(pending) > 0 && t.Bool(1, 2) {
			unscaffold()
		}
	}

	// the deferred edits, in a drawn order
	for len(later) > 0 {
		k := t.Draw(len(later))
		if err := later[k](); err != nil {
			return nil, edits, err
		}

		later = append(later[:k], later[k+1:]...)

		if len(pending) > 0 && t.Bool(1, 2) {
			unscaffold()
		}
	}

	for len(pending) > 0 {
		unscaffold()
	}

	return sc, edits, nil
}

// BuildSchemaAnyHow builds the schema plainly or, in a quarter of the runs,
// through BuildSchemaHist. The bool result tells which.
func (s *SchemaSpec) BuildSchemaAnyHow(t *core.Tape) (*jsonapi.Schema, bool, error) {
	if !t.Bool(1, 4) {
		sc, err := s.BuildSchema(nil)
		return sc, false, err
	}

	sc, edits, err := s.BuildSchemaHist(t)

	return sc, edits > 0, err
}
