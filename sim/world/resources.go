package world

import (
	"encoding/json"
	"fmt"
	"reflect"
	"sort"
	"strings"

	"github.com/mfcochauxlaberge/jsonapi"

	"verifsim/core"
)

// ResSpec is a resource as plain data: the model side of every engine.
type ResSpec struct {
	Type *TypeSpec
	ID   string
	Vals map[string]interface{} // attribute name -> value of the declared Go type; relationship name -> string / []string
}

var idPool = []string{"1", "2", "3", "a", "b", "id-1", "x y", "é", `q"`, "0", "10", "9", "abc", "ab", "B", "<&>", "a/b", "%41",
	"ctl\x01", "del\x7f", "a\vb", "bell\a", "tag\U000e0001", "nl\n", "back\\slash", "\u2028sep"}

// DrawID draws a non-empty ID.
func DrawID(t *core.Tape) string { return idPool[t.Draw(len(idPool))] }

// PlainIDs are IDs that need no escaping anywhere.
// They include IDs that are numerically equal but textually different and IDs
// mixing digits and letters, so that an ordering that is not plain string
// order (or not even a total order) shows.
var PlainIDs = []string{"1", "2", "3", "4", "5", "a", "b", "c", "ab", "abc", "10", "9", "B", "id-1", "01", "1a", "007", "7", "2b"}

// DrawRelValue draws a to-one ID ("" = empty) or a to-many ID list.
func DrawRelValue(t *core.Tape, toOne bool) interface{} {
	if toOne {
		if t.Bool(1, 4) {
			return ""
		}

		// related IDs are IDs too: now and then one that JSON must escape
		if t.Bool(1, 8) {
			return idPool[t.Draw(len(idPool))]
		}

		return PlainIDs[t.Draw(len(PlainIDs))]
	}

	switch t.Draw(5) {
	case 0:
		return []string{}
	case 1:
		return []string(nil)
	}

	n := t.Range(1, 4)
	perm := core.NewRng(t.Seed64()).Perm(len(PlainIDs))
	ids := make([]string, n)

	for i := range ids {
		ids[i] = PlainIDs[perm[i]]
	}

	// a repeated ID is a legal []string too
	if n >= 2 && t.Bool(1, 6) {
		ids[n-1] = ids[0]
	}

	if t.Bool(1, 8) {
		ids[t.Draw(n)] = idPool[t.Draw(len(idPool))]
	}

	return ids
}

// ZeroValue is the model's zero of a field (what Get must return if never set).
func ZeroValue(kind int, nullable bool) interface{} {
	if nullable {
		return nil
	}

	if kind == KBytes {
		return []byte{}
	}

	return reflect.Zero(GoType(kind, false)).Interface()
}

// NewResSpec returns the all-zero resource of a type.
func NewResSpec(ts *TypeSpec) *ResSpec {
	r := &ResSpec{Type: ts, Vals: map[string]interface{}{}}

	for _, a := range ts.Attrs {
		r.Vals[a.Name] = ZeroValue(a.Kind, a.Nullable)
	}

	for _, rel := range ts.Rels {
		if rel.ToOne {
			r.Vals[rel.Name] = ""
		} else {
			r.Vals[rel.Name] = []string{}
		}
	}

	return r
}

// DrawResSpec draws a resource with every field set.
func DrawResSpec(t *core.Tape, ts *TypeSpec, id string) *ResSpec {
	r := NewResSpec(ts)
	r.ID = id

	for _, a := range ts.Attrs {
		r.Vals[a.Name] = DrawValue(t, a.Kind, a.Nullable, false)
	}

	for _, rel := range ts.Rels {
		r.Vals[rel.Name] = DrawRelValue(t, rel.ToOne)
	}

	return r
}

// Clone deep-copies a spec.
func (r *ResSpec) Clone() *ResSpec {
	c := &ResSpec{Type: r.Type, ID: r.ID, Vals: map[string]interface{}{}}
	for _, f := range r.Type.Fields() {
		c.Vals[f] = CloneValue(r.Vals[f])
	}

	return c
}

// Describe renders the spec canonically (to-many as given).
func (r *ResSpec) Describe() string {
	var sb strings.Builder

	fmt.Fprintf(&sb, "%q/%q {", r.Type.Name, r.ID)

	for _, f := range r.Type.Fields() {
		fmt.Fprintf(&sb, " %q=%s", f, Canon(r.Vals[f]))
	}

	sb.WriteString(" }")

	return sb.String()
}

// Soft materialises the spec as a *jsonapi.SoftResource bound to typ (a Type
// obtained from the schema or from TypeSpec.SoftType).
func (r *ResSpec) Soft(typ jsonapi.Type) *jsonapi.SoftResource {
	sr := &jsonapi.SoftResource{}
	sr.SetType(&typ)
	sr.SetID(r.ID)

	for _, f := range r.Type.Fields() {
		sr.Set(f, CloneValue(r.Vals[f]))
	}

	return sr
}

// Wrapped materialises the spec as a *jsonapi.Wrapper around a pointer to a
// struct of the spec's reflect.StructOf type, filled by reflection.
func (r *ResSpec) Wrapped() *jsonapi.Wrapper {
	st := r.Type.GoStruct()
	pv := reflect.New(st)
	sv := pv.Elem()

	fill := func() {
		sv.FieldByName("ID").SetString(r.ID)

		for i, a := range r.Type.Attrs {
			v := CloneValue(r.Vals[a.Name])
			if v == nil {
				continue // nil nullable: the zero pointer
			}

			sv.FieldByName(fmt.Sprintf("A%d", i)).Set(reflect.ValueOf(v))
		}

		for i, rel := range r.Type.Rels {
			v := CloneValue(r.Vals[rel.Name])
			sv.FieldByName(fmt.Sprintf("R%d", i)).Set(reflect.ValueOf(v))
		}
	}

	// Wrap takes a pointer to a struct or a struct value (which it copies), and a
	// wrapper around a pointer is a live view of the caller's struct: "changes made
	// to the Wrapper object will be applied to v" and the caller goes on using v.
	// Which of three forms a spec gets is a pure function of its ID, so that all
	// occur everywhere wrapped resources are used and a replay builds the same one:
	// a struct value; a pointer to a filled struct; a pointer to a struct the caller
	// fills only after wrapping it (an ID assigned later, a row scanned into it).
	switch core.HashString(r.ID) % 3 {
	case 0:
		fill()
		return jsonapi.Wrap(sv.Interface())
	case 1:
		w := jsonapi.Wrap(pv.Interface())
		fill()

		return w
	}

	fill()

	return jsonapi.Wrap(pv.Interface())
}

// HandPayload writes the resource object of the spec as JSON without running any
// code of the library (so that process-wide state of the library stays cold):
// attributes through encoding/json (base64 for bytes, RFC 3339 for times, null
// for nil), relationships as linkage objects. fields selects what is written
// (nil: everything).
func (r *ResSpec) HandPayload(fields []string) []byte {
	want := func(f string) bool {
		if fields == nil {
			return true
		}

		for _, x := range fields {
			if x == f {
				return true
			}
		}

		return false
	}

	attrs := map[string]interface{}{}

	for _, a := range r.Type.Attrs {
		if want(a.Name) {
			attrs[a.Name] = CloneValue(r.Vals[a.Name])
		}
	}

	rels := map[string]interface{}{}

	for _, rel := range r.Type.Rels {
		if !want(rel.Name) {
			continue
		}

		switch v := r.Vals[rel.Name].(type) {
		case string:
			if v == "" {
				rels[rel.Name] = map[string]interface{}{"data": nil}
			} else {
				rels[rel.Name] = map[string]interface{}{"data": map[string]string{"type": rel.ToType, "id": v}}
			}
		case []string:
			l := []map[string]string{}
			for _, id := range v {
				l = append(l, map[string]string{"type": rel.ToType, "id": id})
			}

			rels[rel.Name] = map[string]interface{}{"data": l}
		}
	}

	b, err := json.Marshal(map[string]interface{}{"type": r.Type.Name, "id": r.ID, "attributes": attrs, "relationships": rels})
	if err != nil {
		panic(core.HarnessBug{Value: "HandPayload: " + err.Error()})
	}

	return b
}

// Materialise builds the library resource of the spec's own kind.
func (r *ResSpec) Materialise(schema *jsonapi.Schema) jsonapi.Resource {
	if r.Type.Struct {
		return r.Wrapped()
	}

	return r.Soft(schema.GetType(r.Type.Name))
}

// ---------------------------------------------------------------------------------------------
// observation through the Resource interface

// Observation is everything the Resource interface exposes, rendered.
type Observation struct {
	TypeName string
	Attrs    []string // "name:kind" sorted
	Rels     []string // rendered defs sorted
	ID       string
	Vals     map[string]string // field -> Canon (to-many as given) ; ValsSet -> CanonSet
	ValsSet  map[string]string
	ValsBag  map[string]string // to-many lists in sorted order, repetitions kept
	Types    map[string]string // field -> dynamic Go type ("<nil>" for untyped nil)
}

func sortedAttrNames(m map[string]jsonapi.Attr) []string {
	ks := make([]string, 0, len(m))
	for k := range m {
		ks = append(ks, k)
	}

	sort.Strings(ks)

	return ks
}

func sortedRelNames(m map[string]jsonapi.Rel) []string {
	ks := make([]string, 0, len(m))
	for k := range m {
		ks = append(ks, k)
	}

	sort.Strings(ks)

	return ks
}

// Observe reads a resource through its interface only.
func Observe(r jsonapi.Resource) *Observation {
	o := &Observation{Vals: map[string]string{}, ValsSet: map[string]string{}, ValsBag: map[string]string{}, Types: map[string]string{}}
	o.TypeName = r.GetType().Name
	id, _ := r.Get("id").(string)
	o.ID = id
	attrs := r.Attrs()

	for _, k := range sortedAttrNames(attrs) {
		a := attrs[k]
		o.Attrs = append(o.Attrs, fmt.Sprintf("%q=%q:%s", k, a.Name, KindName(a.Type, a.Nullable)))
		v := r.Get(a.Name)
		o.Vals[a.Name] = Canon(v)
		o.ValsSet[a.Name] = CanonSet(v)
		o.ValsBag[a.Name] = CanonBag(v)
		o.Types[a.Name] = fmt.Sprintf("%T", v)
	}

	rels := r.Rels()

	for _, k := range sortedRelNames(rels) {
		rel := rels[k]
		o.Rels = append(o.Rels, fmt.Sprintf("%q=%q one=%v to=%q inv=%q", k, rel.FromName, rel.ToOne, rel.ToType, rel.ToName))
		v := r.Get(rel.FromName)
		o.Vals[rel.FromName] = Canon(v)
		o.ValsSet[rel.FromName] = CanonSet(v)
		o.ValsBag[rel.FromName] = CanonBag(v)
		o.Types[rel.FromName] = fmt.Sprintf("%T", v)
	}

	return o
}

// StringBag renders an observation with to-many lists in sorted order and their
// repetitions kept: what stays the same when only the order of the IDs changes.
func (o *Observation) StringBag() string {
	var sb strings.Builder

	fmt.Fprintf(&sb, "type=%q id=%q attrs=%v rels=%v vals={", o.TypeName, o.ID, o.Attrs, o.Rels)

	names := make([]string, 0, len(o.Vals))
	for k := range o.Vals {
		names = append(names, k)
	}

	sort.Strings(names)

	for _, k := range names {
		fmt.Fprintf(&sb, " %q=%s", k, o.ValsBag[k])
	}

	sb.WriteString(" }")

	return sb.String()
}

// String renders an observation; set selects set semantics for to-many lists.
func (o *Observation) String(set bool) string {
	var sb strings.Builder

	fmt.Fprintf(&sb, "type=%q id=%q attrs=%v rels=%v vals={", o.TypeName, o.ID, o.Attrs, o.Rels)

	names := make([]string, 0, len(o.Vals))
	for k := range o.Vals {
		names = append(names, k)
	}

	sort.Strings(names)

	for _, k := range names {
		if set {
			fmt.Fprintf(&sb, " %q=%s", k, o.ValsSet[k])
		} else {
			fmt.Fprintf(&sb, " %q=%s", k, o.Vals[k])
		}
	}

	sb.WriteString(" }")

	return sb.String()
}

// ExpectedObservation renders what a resource equal to the spec must expose,
// in the same format as Observation.String.
func (r *ResSpec) ExpectedObservation(set bool) string {
	var attrs, rels []string

	as := append([]AttrSpec{}, r.Type.Attrs...)
	sort.Slice(as, func(i, j int) bool { return as[i].Name < as[j].Name })

	for _, a := range as {
		attrs = append(attrs, fmt.Sprintf("%q=%q:%s", a.Name, a.Name, KindName(a.Kind, a.Nullable)))
	}

	rs := append([]RelSpec{}, r.Type.Rels...)
	sort.Slice(rs, func(i, j int) bool { return rs[i].Name < rs[j].Name })

	for _, rel := range rs {
		rels = append(rels, fmt.Sprintf("%q=%q one=%v to=%q inv=%q", rel.Name, rel.Name, rel.ToOne, rel.ToType, rel.ToName))
	}

	var sb strings.Builder

	fmt.Fprintf(&sb, "type=%q id=%q attrs=%v rels=%v vals={", r.Type.Name, r.ID, attrs, rels)

	for _, f := range r.Type.Fields() {
		if set {
			fmt.Fprintf(&sb, " %q=%s", f, CanonSet(r.Vals[f]))
		} else {
			fmt.Fprintf(&sb, " %q=%s", f, Canon(r.Vals[f]))
		}
	}

	sb.WriteString(" }")

	return sb.String()
}
