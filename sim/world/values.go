// Package world holds the seeded generators every engine shares: type and
// schema specs (realised as soft types and as reflect.StructOf struct types),
// values of the 28 attribute kinds, resources, and canonical observation /
// comparison of what the Resource interface exposes.
//
// Generators draw a spec (plain data) from the tape; the spec is then
// materialised into library objects through the public API and into reference
// models. Nothing here ranges over a Go map to produce output.
package world

import (
	"encoding/hex"
	"fmt"
	"math"
	"reflect"
	"sort"
	"strings"
	"time"

	"github.com/mfcochauxlaberge/jsonapi"

	"verifsim/core"
)

// Attribute kinds mirror the library's constants by value on purpose: they are
// the public vocabulary of Attr.Type (1..14), not an implementation detail.
const (
	KString = jsonapi.AttrTypeString
	KInt    = jsonapi.AttrTypeInt
	KInt8   = jsonapi.AttrTypeInt8
	KInt16  = jsonapi.AttrTypeInt16
	KInt32  = jsonapi.AttrTypeInt32
	KInt64  = jsonapi.AttrTypeInt64
	KUint   = jsonapi.AttrTypeUint
	KUint8  = jsonapi.AttrTypeUint8
	KUint16 = jsonapi.AttrTypeUint16
	KUint32 = jsonapi.AttrTypeUint32
	KUint64 = jsonapi.AttrTypeUint64
	KBool   = jsonapi.AttrTypeBool
	KTime   = jsonapi.AttrTypeTime
	KBytes  = jsonapi.AttrTypeBytes
)

// KindName names a kind for traces and signatures.
func KindName(kind int, nullable bool) string {
	names := []string{"invalid", "string", "int", "int8", "int16", "int32", "int64", "uint", "uint8", "uint16", "uint32", "uint64", "bool", "time", "bytes"}
	n := "kind?"

	if kind >= 0 && kind < len(names) {
		n = names[kind]
	}

	if nullable {
		return "*" + n
	}

	return n
}

var baseTypes = map[int]reflect.Type{
	KString: reflect.TypeOf(""),
	KInt:    reflect.TypeOf(int(0)),
	KInt8:   reflect.TypeOf(int8(0)),
	KInt16:  reflect.TypeOf(int16(0)),
	KInt32:  reflect.TypeOf(int32(0)),
	KInt64:  reflect.TypeOf(int64(0)),
	KUint:   reflect.TypeOf(uint(0)),
	KUint8:  reflect.TypeOf(uint8(0)),
	KUint16: reflect.TypeOf(uint16(0)),
	KUint32: reflect.TypeOf(uint32(0)),
	KUint64: reflect.TypeOf(uint64(0)),
	KBool:   reflect.TypeOf(false),
	KTime:   reflect.TypeOf(time.Time{}),
	KBytes:  reflect.TypeOf([]byte(nil)),
}

// GoType is the Go type the schema declares for an attribute kind.
func GoType(kind int, nullable bool) reflect.Type {
	t := baseTypes[kind]
	if nullable {
		return reflect.PtrTo(t)
	}

	return t
}

var strPool = []string{
	"", "a", "abc", "x\x00y", "héllo→世界", `<a href="x">&amp;</a>`, "line\nbreak\ttab", `back\slash "quoted"`,
	"  ", "é", "zz", "A", " lead", "trail ", "null", "0", "true", "😀", strings.Repeat("k", 70),
}

var zones = []*time.Location{
	time.UTC,
	time.FixedZone("", 5*3600+30*60),
	time.FixedZone("", -8*3600),
	time.FixedZone("", 14*3600),
	time.FixedZone("", -(11*3600 + 45*60)),
}

func drawTime(t *core.Tape) time.Time {
	loc := zones[t.Draw(len(zones))]

	switch t.Draw(8) {
	case 0:
		return time.Time{}
	case 1:
		// the first instant of year 1 in the value's own zone (year 0 in UTC for zones east of it)
		return time.Date(1, 1, 1, 0, 0, 0, 0, loc)
	case 2:
		// the last instant of year 9999 in the value's own zone (year 10000 in UTC for zones west of it)
		return time.Date(9999, 12, 31, 23, 59, 59, 999999999, loc)
	case 3:
		return time.Date(1970, 1, 1, 0, 0, 0, 0, loc)
	case 4:
		return time.Date(2024, 2, 29, 12, 34, 56, 1, loc)
	case 5:
		return time.Date(1969, 12, 31, 23, 59, 59, 500000000, loc)
	default:
		return time.Date(t.Range(2, 9998), time.Month(t.Range(1, 12)), t.Range(1, 28), t.Draw(24), t.Draw(60), t.Draw(60), t.Draw(4)*250000000+t.Draw(2)*123, loc)
	}
}

func drawSigned(t *core.Tape, bits int) int64 {
	min := int64(-1) << (bits - 1)
	max := -(min + 1)

	switch t.Draw(10) {
	case 0:
		return min
	case 1:
		return max
	case 2:
		return 0
	case 3:
		return -1
	case 4:
		return 1
	case 5:
		return min + 1
	case 6:
		return max - 1
	default:
		span := uint64(max) - uint64(min) // wraps to 2^bits-1 for 64
		r := core.NewRng(t.Seed64()).Uint64()

		if bits < 64 {
			r %= span + 1
		}

		return int64(uint64(min) + r)
	}
}

func drawUnsigned(t *core.Tape, bits int) uint64 {
	max := uint64(math.MaxUint64)
	if bits < 64 {
		max = uint64(1)<<bits - 1
	}

	switch t.Draw(10) {
	case 0:
		return 0
	case 1:
		return max
	case 2:
		return 1
	case 3:
		return max - 1
	case 4:
		return max/2 + 1 // 2^(bits-1): above the signed range
	case 5:
		return max / 2
	default:
		r := core.NewRng(t.Seed64()).Uint64()
		if bits < 64 {
			r %= max + 1
		}

		return r
	}
}

func drawBytes(t *core.Tape) []byte {
	switch t.Draw(6) {
	case 0:
		return []byte{}
	case 1:
		return []byte{0}
	case 2:
		return []byte{1, 2}
	case 3:
		return []byte{2, 1}
	case 4:
		return []byte{1, 2, 3, 255, 254}
	default:
		n := t.Range(1, 9)
		r := core.NewRng(t.Seed64())
		b := make([]byte, n)

		for i := range b {
			b[i] = byte(r.Intn(256))
		}

		return b
	}
}

// DrawValue draws a value of exactly the Go type of (kind, nullable). For a
// nullable kind the result is a nil pointer one time in four; allowUntypedNil
// additionally lets it be the untyped nil (both are "null").
func DrawValue(t *core.Tape, kind int, nullable, allowUntypedNil bool) interface{} {
	if nullable && t.Bool(1, 4) {
		if allowUntypedNil && t.Bool(1, 2) {
			return nil
		}

		return reflect.Zero(GoType(kind, true)).Interface()
	}

	var v interface{}

	switch kind {
	case KString:
		v = strPool[t.Draw(len(strPool))]
	case KInt:
		v = int(drawSigned(t, 64))
	case KInt8:
		v = int8(drawSigned(t, 8))
	case KInt16:
		v = int16(drawSigned(t, 16))
	case KInt32:
		v = int32(drawSigned(t, 32))
	case KInt64:
		v = drawSigned(t, 64)
	case KUint:
		v = uint(drawUnsigned(t, 64))
	case KUint8:
		v = uint8(drawUnsigned(t, 8))
	case KUint16:
		v = uint16(drawUnsigned(t, 16))
	case KUint32:
		v = uint32(drawUnsigned(t, 32))
	case KUint64:
		v = drawUnsigned(t, 64)
	case KBool:
		v = t.Bool(1, 2)
	case KTime:
		v = drawTime(t)
	case KBytes:
		v = drawBytes(t)
	default:
		panic(core.HarnessBug{Value: fmt.Sprintf("DrawValue: kind %d", kind)})
	}

	if nullable {
		p := reflect.New(GoType(kind, false))
		p.Elem().Set(reflect.ValueOf(v))

		return p.Interface()
	}

	return v
}

// IsNull reports whether v is the untyped nil or a nil pointer.
func IsNull(v interface{}) bool {
	if v == nil {
		return true
	}

	rv := reflect.ValueOf(v)

	return rv.Kind() == reflect.Ptr && rv.IsNil()
}

// Deref returns the value a non-nil pointer points to, or v itself.
func Deref(v interface{}) interface{} {
	if v == nil {
		return nil
	}

	rv := reflect.ValueOf(v)
	if rv.Kind() == reflect.Ptr {
		if rv.IsNil() {
			return nil
		}

		return rv.Elem().Interface()
	}

	return v
}

// Canon renders a value canonically: null-ness, base Go type and value. A nil
// pointer and the untyped nil both read "null"; a nil and an empty byte string
// or ID list read the same; times are rendered as instants (UTC, nanoseconds);
// to-many ID lists are rendered as given (use CanonSet for set semantics).
func Canon(v interface{}) string {
	if IsNull(v) {
		return "null"
	}

	d := Deref(v)

	switch x := d.(type) {
	case string:
		return fmt.Sprintf("string:%q", x)
	case time.Time:
		return "time:" + x.UTC().Format("2006-01-02T15:04:05.000000000Z")
	case []byte:
		return "bytes:" + hex.EncodeToString(x)
	case []string:
		return fmt.Sprintf("ids:%q", append([]string{}, x...))
	case bool:
		return fmt.Sprintf("bool:%v", x)
	default:
		return fmt.Sprintf("%T:%v", d, d)
	}
}

// CanonSet is Canon with to-many ID lists read as sets (sorted).
func CanonSet(v interface{}) string {
	if ids, ok := v.([]string); ok {
		c := append([]string{}, ids...)
		sort.Strings(c)

		u := c[:0]

		for i, id := range c {
			if i == 0 || id != c[i-1] {
				u = append(u, id)
			}
		}

		return fmt.Sprintf("idset:%q", u)
	}

	return Canon(v)
}

// CanonBag is Canon with to-many lists sorted but not de-duplicated.
func CanonBag(v interface{}) string {
	if ids, ok := v.([]string); ok {
		c := append([]string{}, ids...)
		sort.Strings(c)

		return fmt.Sprintf("idbag:%q", c)
	}

	return Canon(v)
}

// Show renders a value for traces, keeping the pointer-ness visible.
func Show(v interface{}) string {
	if v == nil {
		return "nil"
	}

	rv := reflect.ValueOf(v)
	if rv.Kind() == reflect.Ptr {
		if rv.IsNil() {
			return fmt.Sprintf("(%s)(nil)", rv.Type())
		}

		return "&" + Canon(v)
	}

	return Canon(v)
}

// ExactType reports whether v's dynamic type is exactly the declared Go type
// (or, for a nullable kind, nil).
func ExactType(v interface{}, kind int, nullable bool) bool {
	if v == nil {
		return nullable
	}

	return reflect.TypeOf(v) == GoType(kind, nullable)
}

// CloneValue deep-copies a generated value so that the model never shares
// memory with what is handed to the library.
func CloneValue(v interface{}) interface{} {
	switch x := v.(type) {
	case []byte:
		if x == nil {
			return []byte(nil)
		}

		c := make([]byte, len(x), cap(x)) // spare capacity is part of what a caller hands over
		copy(c, x)

		return c
	case []string:
		if x == nil {
			return []string(nil)
		}

		c := make([]string, len(x), cap(x))
		copy(c, x)

		return c
	case *[]byte:
		if x == nil {
			return (*[]byte)(nil)
		}

		c := make([]byte, len(*x), cap(*x))
		copy(c, *x)

		return &c
	}

	if v == nil {
		return nil
	}

	rv := reflect.ValueOf(v)
	if rv.Kind() == reflect.Ptr && !rv.IsNil() {
		p := reflect.New(rv.Type().Elem())
		p.Elem().Set(rv.Elem())

		return p.Interface()
	}

	return v
}
