package world

import (
	"fmt"
	"net/url"
	"sort"
	"strings"

	"github.com/mfcochauxlaberge/jsonapi"

	"verifsim/core"
)

// DocSpec is a document + URL as plain data.
type DocSpec struct {
	Schema   *SchemaSpec
	Kind     string // nil resource softcollection resources wrappercollection identifier identifiers
	Primary  []*ResSpec
	ColType  *TypeSpec
	Shared   bool // a SoftCollection is typed with the schema's own type value (typ := schema.GetType(n); col.SetType(&typ)), not with a copy
	Idents   []jsonapi.Identifier
	Included []*ResSpec
	Meta     map[string]interface{}
	Links    map[string]jsonapi.Link // top-level links of the caller's own (pagination ...), next to the self link the library adds
	ResMeta  map[string]interface{} // meta put on the first primary resource (if any)
	Errors   []jsonapi.Error
	PrePath  string
	RelData  map[string][]string // type -> relationship names whose data is requested
	FieldSel map[string][]string // type -> explicitly selected fields (absent: default = all)
	Path     string              // URL path, escaped
	Extra    string              // extra query parameters (sort, page, filter), already escaped, each starting with &
}

// MainType is the type of the document's primary data (nil for a null document).
func (d *DocSpec) MainType() *TypeSpec {
	switch {
	case d.ColType != nil:
		return d.ColType
	case len(d.Primary) > 0:
		return d.Primary[0].Type
	case len(d.Idents) > 0 && d.Schema != nil:
		return d.Schema.Type(d.Idents[0].Type)
	}

	return nil
}

// DocKinds lists the primary-data kinds.
var DocKinds = []string{"nil", "resource", "softcollection", "resources", "wrappercollection", "identifier", "identifiers"}

// DocOptions bounds document generation.
type DocOptions struct {
	Kinds        []string
	MaxPrimary   int
	MinPrimary   int // collections hold at least this many resources
	MaxIncluded  int
	MinIncluded  int
	DistinctIncl bool // included resources have pairwise distinct IDs (C11's domain)
	InclPairs    bool // included resources have pairwise distinct (type, ID) pairs; IDs repeat across types on purpose
	Errors       bool // may carry error objects
	ExoticIDs    bool
	AllFields    bool // select every field and request every relationship's data (C01)
}

// (some prefixes run into type names: "/a" + "bc" against "/ab" + "c")
var prefixes = []string{"", "/", "/api", "/api/", "https://example.org", "https://example.org/v1/", "/a", "/ab", "/a/b", "/b", "/a/"}

func drawID(t *core.Tape, exotic bool, taken map[string]bool) string {
	for tries := 0; tries < 20; tries++ {
		var id string

		if exotic {
			id = idPool[t.Draw(len(idPool))]
		} else {
			id = PlainIDs[t.Draw(len(PlainIDs))]
		}

		if !taken[id] {
			taken[id] = true
			return id
		}
	}

	for i := 0; ; i++ {
		id := fmt.Sprintf("gen%d", i)
		if !taken[id] {
			taken[id] = true
			return id
		}
	}
}

func drawMeta(t *core.Tape) map[string]interface{} {
	if t.Bool(1, 2) {
		return nil
	}

	m := map[string]interface{}{}
	keys := []string{"k", "count", "flag", "nested", "list", "z", "a"}
	n := t.Range(0, 4)

	for i := 0; i < n; i++ {
		k := keys[t.Draw(len(keys))]

		switch t.Draw(6) {
		case 0:
			m[k] = strPool[t.Draw(len(strPool))]
		case 1:
			m[k] = float64(t.Range(-5, 1000))
		case 2:
			m[k] = t.Bool(1, 2)
		case 3:
			m[k] = nil
		case 4:
			m[k] = map[string]interface{}{"b": "x", "a": float64(1)}
		default:
			m[k] = []interface{}{"x", float64(2), true}
		}
	}

	return m
}

func drawErrors(t *core.Tape) []jsonapi.Error {
	n := t.Range(1, 3)
	errs := make([]jsonapi.Error, n)

	for i := range errs {
		e := jsonapi.Error{}

		if t.Bool(1, 2) {
			e.ID = fmt.Sprintf("e%d", t.Draw(9))
		}

		if t.Bool(1, 2) {
			e.Code = "code-" + strPool[t.Draw(len(strPool))]
		}

		if t.Bool(1, 2) {
			e.Status = []string{"400", "404", "500", "422"}[t.Draw(4)]
		}

		if t.Bool(1, 2) {
			e.Title = strPool[t.Draw(len(strPool))]
		}

		if t.Bool(1, 2) {
			e.Detail = strPool[t.Draw(len(strPool))]
		}

		if t.Bool(1, 3) {
			e.Links = map[string]string{"about": "https://example.org/e", "type": "t"}

			if t.Bool(1, 4) {
				e.Links["about"] = ""
			}
		}

		if t.Bool(1, 3) {
			e.Source = map[string]interface{}{"pointer": "/data/attributes/x", "parameter": "sort"}

			// the empty string is a JSON pointer too (the whole document)
			if t.Bool(1, 3) {
				e.Source = map[string]interface{}{"pointer": ""}
			}
		}

		if t.Bool(1, 3) {
			e.Meta = jsonapi.Meta{"n": float64(t.Draw(5)), "s": "v"}
		}

		errs[i] = e
	}

	return errs
}

// DrawDoc draws a document spec over a schema spec.
func DrawDoc(t *core.Tape, s *SchemaSpec, o DocOptions) *DocSpec {
	d := &DocSpec{Schema: s, RelData: map[string][]string{}, FieldSel: map[string][]string{}}
	kinds := o.Kinds

	if len(kinds) == 0 {
		kinds = DocKinds
	}

	d.Kind = kinds[t.Draw(len(kinds))]
	d.PrePath = prefixes[t.Draw(len(prefixes))]
	taken := map[string]bool{}

	var structTypes []*TypeSpec

	for _, ts := range s.Types {
		if ts.Struct {
			structTypes = append(structTypes, ts)
		}
	}

	if d.Kind == "wrappercollection" && len(structTypes) == 0 {
		d.Kind = "resources"
	}

	main := s.Types[t.Draw(len(s.Types))]

	switch d.Kind {
	case "resource":
		d.Primary = []*ResSpec{DrawResSpec(t, main, drawID(t, o.ExoticIDs, taken))}
	case "softcollection", "wrappercollection":
		if d.Kind == "wrappercollection" {
			main = structTypes[t.Draw(len(structTypes))]
		}

		d.ColType = main
		d.Shared = t.Bool(1, 2)
		n := t.Range(o.MinPrimary, o.MaxPrimary)

		for i := 0; i < n; i++ {
			d.Primary = append(d.Primary, DrawResSpec(t, main, drawID(t, o.ExoticIDs, taken)))
		}
	case "resources":
		d.ColType = main
		n := t.Range(o.MinPrimary, o.MaxPrimary)

		for i := 0; i < n; i++ {
			ts := main
			if t.Bool(1, 4) {
				ts = s.Types[t.Draw(len(s.Types))]
			}

			d.Primary = append(d.Primary, DrawResSpec(t, ts, drawID(t, o.ExoticIDs, taken)))
		}
	case "identifier":
		d.Idents = []jsonapi.Identifier{{Type: main.Name, ID: drawID(t, o.ExoticIDs, taken)}}
	case "identifiers":
		n := t.Range(0, 4)
		d.Idents = []jsonapi.Identifier{}

		for i := 0; i < n; i++ {
			d.Idents = append(d.Idents, jsonapi.Identifier{Type: main.Name, ID: drawID(t, o.ExoticIDs, taken)})
		}
	}

	ni := t.Range(o.MinIncluded, o.MaxIncluded)
	if !o.DistinctIncl {
		taken = map[string]bool{}
	}

	pairs := map[string]bool{}

	for i := 0; i < ni; i++ {
		ts := s.Types[t.Draw(len(s.Types))]

		if o.InclPairs {
			// the same ID under several types, never the same (type, ID) pair twice
			id := ""

			for tries := 0; tries < 8; tries++ {
				id = PlainIDs[t.Draw(3)]
				if !pairs[ts.Name+"\x00"+id] {
					break
				}

				id = ""
			}

			for id == "" || pairs[ts.Name+"\x00"+id] {
				id = drawID(t, o.ExoticIDs, taken)
			}

			pairs[ts.Name+"\x00"+id] = true
			d.Included = append(d.Included, DrawResSpec(t, ts, id))

			continue
		}

		d.Included = append(d.Included, DrawResSpec(t, ts, drawID(t, o.ExoticIDs, taken)))
	}

	d.Meta = drawMeta(t)

	if t.Bool(1, 4) {
		d.Links = map[string]jsonapi.Link{}
		names := []string{"first", "prev", "next", "last", "related", "describedby", "zz"}

		for i := t.Range(1, 5); i > 0; i-- {
			n := names[t.Draw(len(names))]
			l := jsonapi.Link{HRef: fmt.Sprintf("https://example.org/%s?page=%d", n, t.Draw(4))}

			if t.Bool(1, 4) {
				l.Meta = map[string]interface{}{"count": float64(t.Draw(9)), "a": "b"}
			}

			d.Links[n] = l
		}
	}

	if len(d.Primary) > 0 && t.Bool(1, 4) {
		d.ResMeta = drawMeta(t)
	}

	if o.Errors && t.Bool(1, 5) {
		d.Errors = drawErrors(t)
	}

	// field selection and relationship data
	for _, ts := range s.Types {
		if o.AllFields {
			for _, r := range ts.Rels {
				d.RelData[ts.Name] = append(d.RelData[ts.Name], r.Name)
			}

			continue
		}

		if t.Bool(1, 2) {
			var sel []string

			for _, f := range ts.Fields() {
				if t.Bool(2, 3) {
					sel = append(sel, f)
				}
			}

			if len(sel) > 0 {
				p := core.NewRng(t.Seed64()).Perm(len(sel))
				ps := make([]string, len(sel))

				for i, j := range p {
					ps[i] = sel[j]
				}

				// "id" may be listed explicitly, anywhere in the list
				if t.Bool(1, 4) {
					k := t.Draw(len(ps) + 1)
					ps = append(ps[:k:k], append([]string{"id"}, ps[k:]...)...)
				}

				d.FieldSel[ts.Name] = ps
			}
		}

		for _, r := range ts.Rels {
			if t.Bool(1, 2) {
				d.RelData[ts.Name] = append(d.RelData[ts.Name], r.Name)
			}
		}
	}

	// URL path
	esc := url.PathEscape

	switch d.Kind {
	case "resource":
		d.Path = "/" + esc(main.Name) + "/" + esc(d.Primary[0].ID)
	case "nil":
		d.Path = "/" + esc(main.Name) + "/" + esc("some-id")
	case "identifier", "identifiers":
		d.Path = "/" + esc(main.Name) + "/x1"

		for _, r := range main.Rels {
			if r.ToOne == (d.Kind == "identifier") {
				d.Path = "/" + esc(main.Name) + "/x1/relationships/" + esc(r.Name)
				break
			}
		}
	default:
		d.Path = "/" + esc(main.Name)

		if t.Bool(1, 3) {
			d.Extra += "&page%5Bsize%5D=" + fmt.Sprint(t.Range(1, 50))
		}

		if t.Bool(1, 3) {
			d.Extra += "&page%5Bnumber%5D=" + fmt.Sprint(t.Range(0, 9))
		}

		if len(main.Attrs) > 0 && t.Bool(1, 3) {
			a := main.Attrs[t.Draw(len(main.Attrs))].Name
			d.Extra += "&sort=" + []string{"", "-"}[t.Draw(2)] + url.QueryEscape(a)
		}

		if t.Bool(1, 4) {
			d.Extra += "&filter=label" + fmt.Sprint(t.Draw(3))
		}
	}

	return d
}

// RawURL renders the raw URL; order permutes the fields[...] parameters.
func (d *DocSpec) RawURL(fieldOrder func(names []string) []string) string {
	var params []string

	types := make([]string, 0, len(d.FieldSel))
	for k := range d.FieldSel {
		types = append(types, k)
	}

	sort.Strings(types)

	for _, tn := range types {
		names := append([]string{}, d.FieldSel[tn]...)
		if fieldOrder != nil {
			names = fieldOrder(names)
		}

		esc := make([]string, len(names))
		for i, n := range names {
			esc[i] = url.QueryEscape(n)
		}

		params = append(params, "fields%5B"+url.QueryEscape(tn)+"%5D="+strings.Join(esc, "%2C"))
	}

	q := strings.Join(params, "&") + d.Extra
	q = strings.TrimPrefix(q, "&")

	if q == "" {
		return d.Path
	}

	return d.Path + "?" + q
}

// MatOptions permutes the order-irrelevant parts when materialising.
type MatOptions struct {
	Rng *core.Rng // nil: as specified
	// CopyOnRead wraps the resources that need not be of a library type (a single
	// primary resource, the members of a Resources collection, included resources)
	// in a caller-side Resource implementation whose Get returns fresh copies of
	// slices: a defensive implementation a library user may well write.
	CopyOnRead bool
}

// CopyOnRead is that implementation.
type CopyOnRead struct{ jsonapi.Resource }

// Get returns a copy of whatever slice the wrapped resource holds.
func (c CopyOnRead) Get(key string) interface{} { return CloneValue(c.Resource.Get(key)) }

func permStrings(r *core.Rng, s []string) []string {
	if r == nil || len(s) < 2 {
		return append([]string(nil), s...)
	}

	out := make([]string, len(s))
	for i, j := range r.Perm(len(s)) {
		out[i] = s[j]
	}

	return out
}

// permuted returns a clone of rs whose to-many ID lists are permuted.
func (rs *ResSpec) permuted(r *core.Rng) *ResSpec {
	c := rs.Clone()

	if r == nil {
		return c
	}

	for _, rel := range rs.Type.Rels {
		if ids, ok := c.Vals[rel.Name].([]string); ok && len(ids) > 1 {
			c.Vals[rel.Name] = permStrings(r, ids)
		}
	}

	return c
}

// Materialise builds the library Document and URL of the spec.
func (d *DocSpec) Materialise(schema *jsonapi.Schema, o MatOptions) (*jsonapi.Document, *jsonapi.URL, error) {
	raw := d.RawURL(func(n []string) []string { return permStrings(o.Rng, n) })

	u, err := jsonapi.NewURLFromRaw(schema, raw)
	if err != nil {
		return nil, nil, fmt.Errorf("url %q: %v", raw, err)
	}

	if o.Rng != nil {
		// the names in a field selection, also for the types that got the default
		types := make([]string, 0, len(u.Params.Fields))
		for k := range u.Params.Fields {
			types = append(types, k)
		}

		sort.Strings(types)

		for _, k := range types {
			u.Params.Fields[k] = permStrings(o.Rng, u.Params.Fields[k])
		}
	}

	doc := &jsonapi.Document{PrePath: d.PrePath}

	if d.Meta != nil {
		doc.Meta = jsonapi.Meta{}
		for _, k := range sortedKeys(d.Meta) {
			doc.Meta[k] = d.Meta[k]
		}
	}

	if d.Links != nil {
		doc.Links = map[string]jsonapi.Link{}
		for _, k := range sortedLinkKeys(d.Links) {
			doc.Links[k] = d.Links[k]
		}
	}

	doc.Errors = append([]jsonapi.Error(nil), d.Errors...)
	doc.RelData = map[string][]string{}

	for _, tn := range sortedKeysS(d.RelData) {
		doc.RelData[tn] = permStrings(o.Rng, d.RelData[tn])
	}

	mk := func(rs *ResSpec) jsonapi.Resource { return rs.permuted(o.Rng).Materialise(schema) }
	wrap := func(r jsonapi.Resource) jsonapi.Resource {
		if o.CopyOnRead {
			return CopyOnRead{r}
		}

		return r
	}

	switch d.Kind {
	case "nil":
		doc.Data = nil
	case "resource":
		doc.Data = wrap(mk(d.Primary[0]))
	case "softcollection":
		col := &jsonapi.SoftCollection{}
		typ := schema.GetType(d.ColType.Name)

		if d.Shared {
			// the usual way: the collection's type shares its field maps with the schema's
			// (its members are of that very type, so nothing is ever added to them)
			col.SetType(&typ)
		} else {
			ct := typ.Copy()
			col.SetType(&ct)
		}

		for _, rs := range d.Primary {
			col.Add(mk(rs))
		}

		doc.Data = col
	case "resources":
		col := &jsonapi.Resources{}
		for _, rs := range d.Primary {
			col.Add(wrap(mk(rs)))
		}

		doc.Data = col
	case "wrappercollection":
		col := jsonapi.WrapCollection(NewResSpec(d.ColType).Wrapped())
		for _, rs := range d.Primary {
			col.Add(mk(rs))
		}

		doc.Data = col
	case "identifier":
		doc.Data = d.Idents[0]
	case "identifiers":
		doc.Data = jsonapi.Identifiers(append([]jsonapi.Identifier{}, d.Idents...))
	}

	if d.ResMeta != nil {
		var first jsonapi.Resource

		switch x := doc.Data.(type) {
		case jsonapi.Resource:
			first = x
		case jsonapi.Collection:
			if x.Len() > 0 {
				first = x.At(0)
			}
		}

		if cor, ok := first.(CopyOnRead); ok {
			first = cor.Resource
		}

		if mh, ok := first.(jsonapi.MetaHolder); ok {
			m := jsonapi.Meta{}
			for _, k := range sortedKeys(d.ResMeta) {
				m[k] = d.ResMeta[k]
			}

			mh.SetMeta(m)
		}
	}

	order := make([]int, len(d.Included))
	for i := range order {
		order[i] = i
	}

	if o.Rng != nil {
		order = o.Rng.Perm(len(d.Included))
	}

	for _, i := range order {
		doc.Included = append(doc.Included, wrap(mk(d.Included[i])))
	}

	return doc, u, nil
}

func sortedKeys(m map[string]interface{}) []string {
	ks := make([]string, 0, len(m))
	for k := range m {
		ks = append(ks, k)
	}

	sort.Strings(ks)

	return ks
}

func sortedKeysS(m map[string][]string) []string {
	ks := make([]string, 0, len(m))
	for k := range m {
		ks = append(ks, k)
	}

	sort.Strings(ks)

	return ks
}

// Describe renders the spec for traces.
func sortedLinkKeys(m map[string]jsonapi.Link) []string {
	ks := make([]string, 0, len(m))
	for k := range m {
		ks = append(ks, k)
	}

	sort.Strings(ks)

	return ks
}

func (d *DocSpec) Describe() string {
	var sb strings.Builder

	fmt.Fprintf(&sb, "doc kind=%s prefix=%q url=%q", d.Kind, d.PrePath, d.RawURL(nil))

	for _, rs := range d.Primary {
		fmt.Fprintf(&sb, "\n      data %s", rs.Describe())
	}

	for _, id := range d.Idents {
		fmt.Fprintf(&sb, "\n      ident %q/%q", id.Type, id.ID)
	}

	for _, rs := range d.Included {
		fmt.Fprintf(&sb, "\n      included %s", rs.Describe())
	}

	if len(d.Errors) > 0 {
		fmt.Fprintf(&sb, "\n      errors %d", len(d.Errors))
	}

	fmt.Fprintf(&sb, "\n      relData %v meta %v links %v", d.RelData, d.Meta, d.Links)

	return sb.String()
}
