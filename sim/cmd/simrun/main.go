// Command simrun is the single entry point of every check: it is built afresh
// by /verif/run.sh against an instrumented scratch copy of /repo's working tree.
package main

import (
	"verifsim/core"
	"verifsim/engines/e1doc"
	"verifsim/engines/e2wire"
	"verifsim/engines/e3url"
	"verifsim/engines/e4store"
	"verifsim/engines/e5schema"
	"verifsim/engines/e6resource"
	"verifsim/engines/e7conc"
)

func main() {
	engines := map[string]core.Engine{}
	propEngine := map[string]string{}

	reg := func(e core.Engine, props ...string) {
		engines[e.Name()] = e
		for _, p := range props {
			propEngine[p] = e.Name()
		}
	}

	reg(e1doc.Engine{}, "C11", "C03")
	reg(e2wire.Engine{}, "C01", "C02", "C05")
	reg(e3url.Engine{}, "C08")
	reg(e4store.Engine{}, "C19", "C09")
	reg(e5schema.Engine{}, "C14", "C15", "C16")
	reg(e6resource.Engine{}, "C17", "C18")
	reg(e7conc.Engine{}, "C12")

	core.Main(engines, propEngine)
}
