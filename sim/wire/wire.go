// Package wire is the simulated transport of engine E2: an io.ReadCloser that
// delivers a message in seeded fragments and the fault kinds a real deployment
// meets on a request body (seam S3). No socket, no net/http server.
package wire

import (
	"bytes"
	"encoding/json"
	"errors"
	"io"
	"sort"

	"verifsim/core"
)

// ErrInjected is the read error the transport injects (F3).
var ErrInjected = errors.New("wire: injected read error (connection reset)")

// Body is the simulated request body.
type Body struct {
	data        []byte
	pos         int
	rng         *core.Rng
	maxChunk    int
	zeroReads   bool
	eofWithData bool
	errAt       int // -1: none; else fail once pos >= errAt
	zeros       int

	Reads     int
	ZeroReads int
	Closed    bool
	ErrFired  bool
	EOFData   bool
}

// NewBody builds a body delivering data. errAt < 0 disables the read error.
func NewBody(data []byte, seed uint64, maxChunk int, zeroReads, eofWithData bool, errAt int) *Body {
	return &Body{data: data, rng: core.NewRng(seed), maxChunk: maxChunk, zeroReads: zeroReads, eofWithData: eofWithData, errAt: errAt}
}

// Read implements io.Reader with F1 (fragmentation, zero-length reads, final
// read returning data and io.EOF) and F3 (error after k bytes).
func (b *Body) Read(p []byte) (int, error) {
	b.Reads++

	if b.errAt >= 0 && b.pos >= b.errAt {
		b.ErrFired = true
		return 0, ErrInjected
	}

	if b.pos >= len(b.data) {
		return 0, io.EOF
	}

	if len(p) == 0 {
		return 0, nil
	}

	if b.zeroReads && b.zeros < 2 && b.rng.Intn(5) == 0 {
		b.zeros++
		b.ZeroReads++

		return 0, nil
	}

	b.zeros = 0
	n := 1 + b.rng.Intn(b.maxChunk)

	if n > len(p) {
		n = len(p)
	}

	if rem := len(b.data) - b.pos; n > rem {
		n = rem
	}

	if b.errAt >= 0 && b.pos+n > b.errAt {
		n = b.errAt - b.pos
	}

	copy(p, b.data[b.pos:b.pos+n])
	b.pos += n

	if b.pos >= len(b.data) && b.eofWithData && b.errAt < 0 {
		b.EOFData = true
		return n, io.EOF
	}

	return n, nil
}

// Close implements io.Closer.
func (b *Body) Close() error {
	b.Closed = true
	return nil
}

// Fault kinds.
const (
	FTruncate  = "F2-truncation"
	FReadErr   = "F3-read-error"
	FCorrupt   = "F4-corruption"
	FDuplicate = "F5-duplication"
	FLoss      = "F6-loss"
	FReorder   = "F7-reorder"
	FSplice    = "F8-splice"
	FSender    = "F9-faulty-sender"
)

// AllFaults lists the byte-level and sender faults.
var AllFaults = []string{FTruncate, FReadErr, FCorrupt, FDuplicate, FLoss, FReorder, FSplice, FSender}

var structural = []byte(`{}[]":,\0123456789ntfu-+.eE `)

// interesting positions: just after one of the structural bytes
func structuralPositions(msg []byte) []int {
	var pos []int

	for i, c := range msg {
		switch c {
		case '"', ':', ',', '{', '[', '\\', '}', ']':
			pos = append(pos, i, i+1)
		}
	}

	return pos
}

func pickPos(t *core.Tape, msg []byte) int {
	if len(msg) == 0 {
		return 0
	}

	if sp := structuralPositions(msg); len(sp) > 0 && t.Bool(2, 3) {
		p := sp[t.Draw(len(sp))]
		if p > len(msg) {
			p = len(msg)
		}

		return p
	}

	return t.Draw(len(msg) + 1)
}

// Apply applies one fault of the given kind to msg. other is a second valid
// message (for splices). It returns the delivered bytes, the read-error
// position (-1 if none) and a short description.
func Apply(t *core.Tape, kind string, msg, other []byte) (out []byte, errAt int, desc string) {
	errAt = -1
	out = append([]byte{}, msg...)

	frag := func() (int, int) {
		if len(out) < 2 {
			return 0, len(out)
		}

		i := pickPos(t, out)
		j := i + 1 + t.Draw(12)

		if t.Bool(1, 4) {
			j = pickPos(t, out)
		}

		if j < i {
			i, j = j, i
		}

		if j > len(out) {
			j = len(out)
		}

		return i, j
	}

	switch kind {
	case FTruncate:
		k := pickPos(t, out)
		if k >= len(out) && len(out) > 0 {
			k = len(out) - 1
		}

		return out[:k], -1, "truncated at " + itoa(k) + " of " + itoa(len(msg))
	case FReadErr:
		k := pickPos(t, out)
		return out, k, "read error after " + itoa(k) + " bytes"
	case FCorrupt:
		n := t.Range(1, 3)
		desc = "corrupted"

		for i := 0; i < n && len(out) > 0; i++ {
			p := pickPos(t, out)
			if p >= len(out) {
				p = len(out) - 1
			}

			if t.Bool(1, 2) {
				out[p] ^= 1 << uint(t.Draw(8))
			} else {
				out[p] = structural[t.Draw(len(structural))]
			}

			desc += " @" + itoa(p)
		}

		return out, -1, desc
	case FDuplicate:
		i, j := frag()
		dup := append([]byte{}, out[i:j]...)
		out = append(out[:j:j], append(dup, out[j:]...)...)

		return out, -1, "duplicated [" + itoa(i) + "," + itoa(j) + ")"
	case FLoss:
		i, j := frag()
		out = append(out[:i:i], out[j:]...)

		return out, -1, "lost [" + itoa(i) + "," + itoa(j) + ")"
	case FReorder:
		i, j := frag()
		k := j + 1 + t.Draw(12)

		if k > len(out) {
			k = len(out)
		}

		re := append([]byte{}, out[:i]...)
		re = append(re, out[j:k]...)
		re = append(re, out[i:j]...)
		re = append(re, out[k:]...)

		return re, -1, "swapped [" + itoa(i) + "," + itoa(j) + ") with [" + itoa(j) + "," + itoa(k) + ")"
	case FSplice:
		if t.Bool(1, 2) {
			return append(out, other...), -1, "two messages concatenated"
		}

		k := pickPos(t, out)
		l := pickPos(t, other)

		return append(append([]byte{}, out[:k]...), other[l:]...), -1, "spliced at " + itoa(k) + " into another message at " + itoa(l)
	case FSender:
		m, d := mutateTree(t, msg)
		return m, -1, d
	}

	return out, -1, "none"
}

func itoa(i int) string {
	if i == 0 {
		return "0"
	}

	neg := i < 0
	if neg {
		i = -i
	}

	var b []byte

	for i > 0 {
		b = append([]byte{byte('0' + i%10)}, b...)
		i /= 10
	}

	if neg {
		b = append([]byte{'-'}, b...)
	}

	return string(b)
}

// --- F9: a faulty sender: structural corruption on the JSON tree before sending

type node struct {
	parent interface{} // map[string]interface{} or []interface{}
	key    string
	idx    int
	path   string
}

func collect(v interface{}, path string, out *[]node) {
	switch x := v.(type) {
	case map[string]interface{}:
		keys := make([]string, 0, len(x))
		for k := range x {
			keys = append(keys, k)
		}

		sort.Strings(keys)

		for _, k := range keys {
			*out = append(*out, node{parent: x, key: k, path: path + "/" + k})
			collect(x[k], path+"/"+k, out)
		}
	case []interface{}:
		for i := range x {
			*out = append(*out, node{parent: x, idx: i, path: path + "/" + itoa(i)})
			collect(x[i], path+"/"+itoa(i), out)
		}
	}
}

var otherKinds = []func() interface{}{
	func() interface{} { return json.Number("12") },
	func() interface{} { return json.Number("0") },
	func() interface{} { return json.Number("7") },
	func() interface{} { return "" },
	func() interface{} { return "x" },
	func() interface{} { return false },
	func() interface{} { return json.Number("-1") },
	func() interface{} { return json.Number("1.5") },
	func() interface{} { return json.Number("7.0") },
	func() interface{} { return json.Number("1e2") },
	func() interface{} { return json.Number("3e9") },
	func() interface{} { return json.Number("-0") },
	func() interface{} { return json.Number("1.2e1") },
	func() interface{} { return json.Number("0.0") },
	func() interface{} { return json.Number("-3.5e2") },
	func() interface{} { return "str" },
	func() interface{} { return true },
	func() interface{} { return nil },
	func() interface{} { return []interface{}{} },
	func() interface{} { return []interface{}{nil} },
	func() interface{} { return []interface{}{json.Number("1"), "x"} },
	func() interface{} { return map[string]interface{}{} },
	func() interface{} { return map[string]interface{}{"id": json.Number("1"), "type": nil} },
	func() interface{} { return json.Number("99999999999999999999999999") },
	func() interface{} { return "bm90IGJhc2U2NA" }, // base64 without padding
	func() interface{} { return "!!not base64!!" },
	func() interface{} { return nest(60, false) },
	func() interface{} { return nest(3000, true) },
	func() interface{} { return "2024-13-45T99:00:00Z" },
}

// nest builds a deeply nested array or object.
func nest(depth int, object bool) interface{} {
	var v interface{} = "bottom"

	for i := 0; i < depth; i++ {
		if object {
			v = map[string]interface{}{"data": v}
		} else {
			v = []interface{}{v}
		}
	}

	return v
}

func mutateTree(t *core.Tape, msg []byte) ([]byte, string) {
	dec := json.NewDecoder(bytes.NewReader(msg))
	dec.UseNumber()

	var root interface{}
	if err := dec.Decode(&root); err != nil {
		return msg, "sender fault skipped (message is not JSON)"
	}

	var nodes []node

	collect(root, "", &nodes)

	if len(nodes) == 0 {
		return msg, "sender fault skipped (no member)"
	}

	n := nodes[t.Draw(len(nodes))]
	desc := ""

	set := func(v interface{}) {
		switch p := n.parent.(type) {
		case map[string]interface{}:
			p[n.key] = v
		case []interface{}:
			p[n.idx] = v
		}
	}

	switch t.Draw(5) {
	case 0, 1: // a value of another JSON kind
		v := otherKinds[t.Draw(len(otherKinds))]()
		set(v)

		b, _ := json.Marshal(v)
		desc = "member " + n.path + " replaced by " + string(b)
	case 2: // dropped
		if p, ok := n.parent.(map[string]interface{}); ok {
			delete(p, n.key)

			desc = "member " + n.path + " dropped"
		} else {
			set(nil)

			desc = "element " + n.path + " replaced by null"
		}
	case 3: // every "type" replaced by an unknown name
		cnt := 0

		for _, m := range nodes {
			if p, ok := m.parent.(map[string]interface{}); ok && m.key == "type" {
				if _, isStr := p["type"].(string); isStr {
					p["type"] = "no-such-type"
					cnt++

					if t.Bool(1, 2) {
						break
					}
				}
			}
		}

		desc = "type replaced by an unknown name in " + itoa(cnt) + " places"
	default: // renamed member (unknown field / missing member)
		if p, ok := n.parent.(map[string]interface{}); ok {
			v := p[n.key]
			delete(p, n.key)
			p[n.key+"_x"] = v

			desc = "member " + n.path + " renamed"
		} else {
			set("x")

			desc = "element " + n.path + " replaced by a string"
		}
	}

	out, err := json.Marshal(root)
	if err != nil {
		return msg, "sender fault skipped (re-encode failed)"
	}

	// duplicate keys cannot be expressed in a tree: do it on the text sometimes
	if t.Bool(1, 6) {
		if i := bytes.Index(out, []byte(`"id":`)); i >= 0 {
			out = append(out[:i:i], append([]byte(`"id":"dup","id":7,`), out[i:]...)...)
			desc += " + duplicate id key"
		}
	}

	return out, desc
}
