package model

import (
	"fmt"
	"sort"
	"strings"

	"verifsim/world"
)

// A FilterSpec is a filter tree as plain data.
type FilterSpec struct {
	Field string
	Op    string
	Val   interface{}   // leaf value, of the field's Go type ([]string for in / to-many =, string for has)
	Kids  []*FilterSpec // for and / or
}

// Describe renders a filter tree.
func (f *FilterSpec) Describe() string {
	if f == nil {
		return "<nil>"
	}

	if f.Op == "and" || f.Op == "or" {
		parts := make([]string, len(f.Kids))
		for i, k := range f.Kids {
			parts[i] = k.Describe()
		}

		return f.Op + "(" + strings.Join(parts, ", ") + ")"
	}

	return fmt.Sprintf("%q %s %s", f.Field, f.Op, world.Show(f.Val))
}

// Allowed evaluates the tree on a record, read as logic:
// and = all children (true when empty), or = some child (false when empty),
// in / has = membership, = / != complementary equality, < <= > >= the natural
// total order of the kind; a nil value equals only nil and is never ordered;
// booleans and to-many sets are never ordered; an unknown operator allows nothing.
func (f *FilterSpec) Allowed(r *Rec) bool {
	switch f.Op {
	case "and":
		for _, k := range f.Kids {
			if !k.Allowed(r) {
				return false
			}
		}

		return true
	case "or":
		for _, k := range f.Kids {
			if k.Allowed(r) {
				return true
			}
		}

		return false
	}

	rv := r.Vals[f.Field]

	switch f.Op {
	case "in":
		s, _ := rv.(string)
		for _, x := range f.Val.([]string) {
			if x == s {
				return true
			}
		}

		return false
	case "has":
		ids, _ := rv.([]string)
		for _, x := range ids {
			if x == f.Val.(string) {
				return true
			}
		}

		return false
	}

	// to-many: set equality only
	if ids, ok := rv.([]string); ok {
		other, _ := f.Val.([]string)
		eq := sameSet(ids, other)

		switch f.Op {
		case "=":
			return eq
		case "!=":
			return !eq
		}

		return false
	}

	rn, cn := world.IsNull(rv), world.IsNull(f.Val)

	if rn || cn {
		switch f.Op {
		case "=":
			return rn && cn
		case "!=":
			return !(rn && cn)
		}

		return false
	}

	c, ok := Compare(rv, f.Val)
	if !ok {
		return false
	}

	_, isBool := world.Deref(rv).(bool)

	switch f.Op {
	case "=":
		return c == 0
	case "!=":
		return c != 0
	}

	if isBool {
		return false
	}

	switch f.Op {
	case "<":
		return c < 0
	case "<=":
		return c <= 0
	case ">":
		return c > 0
	case ">=":
		return c >= 0
	}

	return false
}

func sameSet(a, b []string) bool {
	if len(a) != len(b) {
		return false
	}

	x := append([]string{}, a...)
	y := append([]string{}, b...)

	sort.Strings(x)
	sort.Strings(y)

	for i := range x {
		if x[i] != y[i] {
			return false
		}
	}

	return true
}
