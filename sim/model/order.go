// Package model holds reference models written from the property statements,
// never by calling the library's own helpers.
package model

import (
	"bytes"
	"fmt"
	"math/big"
	"sort"
	"time"

	"verifsim/world"
)

// Compare orders two non-null values of one kind by the kind's natural total
// order: numeric, lexicographic for strings and byte strings, chronological
// for times, false < true. ok is false when the kind has no order here.
func Compare(a, b interface{}) (c int, ok bool) {
	a, b = world.Deref(a), world.Deref(b)

	switch x := a.(type) {
	case string:
		y, ok := b.(string)
		if !ok {
			return 0, false
		}

		switch {
		case x < y:
			return -1, true
		case x > y:
			return 1, true
		}

		return 0, true
	case []byte:
		y, ok := b.([]byte)
		if !ok {
			return 0, false
		}

		return bytes.Compare(x, y), true
	case time.Time:
		y, ok := b.(time.Time)
		if !ok {
			return 0, false
		}

		switch {
		case x.Before(y):
			return -1, true
		case x.After(y):
			return 1, true
		}

		return 0, true
	case bool:
		y, ok := b.(bool)
		if !ok {
			return 0, false
		}

		switch {
		case !x && y:
			return -1, true
		case x && !y:
			return 1, true
		}

		return 0, true
	}

	x, okx := toBig(a)
	y, oky := toBig(b)

	if okx && oky {
		return x.Cmp(y), true
	}

	return 0, false
}

func toBig(v interface{}) (*big.Int, bool) {
	switch x := v.(type) {
	case int:
		return big.NewInt(int64(x)), true
	case int8:
		return big.NewInt(int64(x)), true
	case int16:
		return big.NewInt(int64(x)), true
	case int32:
		return big.NewInt(int64(x)), true
	case int64:
		return big.NewInt(x), true
	case uint:
		return new(big.Int).SetUint64(uint64(x)), true
	case uint8:
		return new(big.Int).SetUint64(uint64(x)), true
	case uint16:
		return new(big.Int).SetUint64(uint64(x)), true
	case uint32:
		return new(big.Int).SetUint64(uint64(x)), true
	case uint64:
		return new(big.Int).SetUint64(x), true
	}

	return nil, false
}

// A Rec is a record of a collection as the model sees it.
type Rec struct {
	ID   string
	Vals map[string]interface{}
}

// CompareRecs orders two records by sorting rules ("name" ascending, "-name"
// descending, "id" allowed; nil before non-nil, the whole order reversed for a
// descending rule; later rules break ties). It returns 0 for a tie.
func CompareRecs(a, b *Rec, rules []string) int {
	if len(rules) == 0 {
		rules = []string{"id"}
	}

	for _, r := range rules {
		desc := false
		if len(r) > 0 && r[0] == '-' {
			desc = true
			r = r[1:]
		}

		var c int

		if r == "id" {
			switch {
			case a.ID < b.ID:
				c = -1
			case a.ID > b.ID:
				c = 1
			}
		} else {
			va, vb := a.Vals[r], b.Vals[r]
			na, nb := world.IsNull(va), world.IsNull(vb)

			switch {
			case na && nb:
				c = 0
			case na:
				c = -1
			case nb:
				c = 1
			default:
				c, _ = Compare(va, vb)
			}
		}

		if c != 0 {
			if desc {
				return -c
			}

			return c
		}
	}

	return 0
}

// CheckPage verifies that page (a sequence of record IDs) is positions
// [skip, skip+size) of some arrangement of matches that is sorted by rules.
// Ties leave the order open, so the page is checked by ranks rather than
// against one sorted list. It returns "" or a description of the mismatch.
func CheckPage(matches []*Rec, rules []string, skip, size uint64, page []string) string {
	return CheckPageCmp(matches, func(a, b *Rec) int { return CompareRecs(a, b, rules) }, fmt.Sprint(rules), skip, size, page)
}

// CheckPageCmp is CheckPage for an arbitrary preorder.
func CheckPageCmp(matches []*Rec, cmp func(a, b *Rec) int, rules string, skip, size uint64, page []string) string {
	total := uint64(len(matches))
	want := uint64(0)

	if skip < total {
		want = total - skip
		if size < want {
			want = size
		}
	}

	if uint64(len(page)) != want {
		return fmt.Sprintf("page has %d resources, want %d (matches %d, skip %d, size %d)", len(page), want, total, skip, size)
	}

	byID := map[string]*Rec{}
	for _, m := range matches {
		byID[m.ID] = m
	}

	seen := map[string]bool{}

	for j, id := range page {
		rec, ok := byID[id]
		if !ok {
			return fmt.Sprintf("page holds %q, which is not among the selected and allowed resources", id)
		}

		if seen[id] {
			return fmt.Sprintf("page holds %q twice", id)
		}

		seen[id] = true

		less, equal := uint64(0), uint64(0)

		for _, m := range matches {
			switch c := cmp(m, rec); {
			case c < 0:
				less++
			case c == 0:
				equal++
			}
		}

		pos := skip + uint64(j)
		if pos < less || pos >= less+equal {
			return fmt.Sprintf("resource %q is at position %d but the rules %s put it in positions [%d,%d)", id, pos, rules, less, less+equal)
		}
	}

	return ""
}

// SortedIDs returns the IDs of recs in the order of rules (id breaks ties, so
// it is total for unique IDs).
func SortedIDs(recs []*Rec, rules []string) []string {
	c := append([]*Rec{}, recs...)
	full := append(append([]string{}, rules...), "id")

	sort.SliceStable(c, func(i, j int) bool { return CompareRecs(c[i], c[j], full) < 0 })

	ids := make([]string, len(c))
	for i, r := range c {
		ids[i] = r.ID
	}

	return ids
}
