package model

import (
	"bytes"
	"encoding/json"
	"fmt"
	"strings"
)

// DocFacts is what the validator extracts from a marshaled document.
type DocFacts struct {
	HasData     bool
	HasErrors   bool
	HasIncluded bool
	PrimaryObjs [][2]string // (type, id) of resource objects in data
	Included    [][2]string
	Resources   int
}

// ValidateDocument checks a marshaled document against the JSON:API document
// grammar as C03 states it. It is written from the specification, not from the
// library. prefix is the document's path prefix. It returns the extracted
// facts and "" or (clause, message).
func ValidateDocument(payload []byte, prefix string, primaryAreResources bool) (*DocFacts, string, string) {
	f := &DocFacts{}

	dec := json.NewDecoder(bytes.NewReader(payload))
	dec.UseNumber()

	var top interface{}

	if err := dec.Decode(&top); err != nil {
		return f, "valid-json", fmt.Sprintf("output is not valid JSON: %v", err)
	}

	if dec.More() {
		return f, "valid-json", "trailing data after the top-level value"
	}

	obj, ok := top.(map[string]interface{})
	if !ok {
		return f, "top-level-object", "the top level is not an object"
	}

	if _, ok := obj["jsonapi"]; !ok {
		return f, "jsonapi-member", "the top level has no jsonapi member"
	}

	links, ok := obj["links"].(map[string]interface{})
	if !ok {
		return f, "self-link", "the top level has no links object"
	}

	if !isLink(links["self"]) {
		return f, "self-link", "the top level has no self link"
	}

	_, f.HasData = obj["data"]
	_, f.HasErrors = obj["errors"]
	_, f.HasIncluded = obj["included"]

	if f.HasData && f.HasErrors {
		return f, "data-xor-errors", "the document has both data and errors"
	}

	if f.HasIncluded && !f.HasData {
		return f, "included-only-with-data", "the document has included but no data"
	}

	if f.HasErrors {
		if _, ok := obj["errors"].([]interface{}); !ok {
			return f, "errors-array", "errors is not an array"
		}
	}

	if f.HasData && primaryAreResources {
		switch d := obj["data"].(type) {
		case nil:
		case map[string]interface{}:
			ti, clause, msg := checkResource(d, prefix)
			if clause != "" {
				return f, clause, "data: " + msg
			}

			f.PrimaryObjs = append(f.PrimaryObjs, ti)
			f.Resources++
		case []interface{}:
			for i, e := range d {
				eo, ok := e.(map[string]interface{})
				if !ok {
					return f, "resource-object", fmt.Sprintf("data[%d] is not an object", i)
				}

				ti, clause, msg := checkResource(eo, prefix)
				if clause != "" {
					return f, clause, fmt.Sprintf("data[%d]: %s", i, msg)
				}

				f.PrimaryObjs = append(f.PrimaryObjs, ti)
				f.Resources++
			}
		default:
			return f, "data-shape", "data is neither null, an object nor an array"
		}
	} else if f.HasData {
		// identifiers
		switch d := obj["data"].(type) {
		case nil:
		case map[string]interface{}:
			if msg := checkIdentifier(d); msg != "" {
				return f, "identifier-object", "data: " + msg
			}
		case []interface{}:
			for i, e := range d {
				eo, ok := e.(map[string]interface{})
				if !ok {
					return f, "identifier-object", fmt.Sprintf("data[%d] is not an object", i)
				}

				if msg := checkIdentifier(eo); msg != "" {
					return f, "identifier-object", fmt.Sprintf("data[%d]: %s", i, msg)
				}
			}
		default:
			return f, "data-shape", "data is neither null, an object nor an array"
		}
	}

	if f.HasIncluded {
		arr, ok := obj["included"].([]interface{})
		if !ok {
			return f, "included-array", "included is not an array"
		}

		for i, e := range arr {
			eo, ok := e.(map[string]interface{})
			if !ok {
				return f, "resource-object", fmt.Sprintf("included[%d] is not an object", i)
			}

			ti, clause, msg := checkResource(eo, prefix)
			if clause != "" {
				return f, clause, fmt.Sprintf("included[%d]: %s", i, msg)
			}

			f.Included = append(f.Included, ti)
			f.Resources++
		}
	}

	return f, "", ""
}

func isLink(v interface{}) bool {
	switch l := v.(type) {
	case string:
		return true
	case map[string]interface{}:
		_, ok := l["href"].(string)
		return ok
	}

	return false
}

func linkText(v interface{}) string {
	switch l := v.(type) {
	case string:
		return l
	case map[string]interface{}:
		s, _ := l["href"].(string)
		return s
	}

	return ""
}

func checkIdentifier(o map[string]interface{}) string {
	if _, ok := o["type"].(string); !ok {
		return "type is not a string"
	}

	if _, ok := o["id"].(string); !ok {
		return "id is not a string"
	}

	return ""
}

func checkResource(o map[string]interface{}, prefix string) (ti [2]string, clause, msg string) {
	typ, ok := o["type"].(string)
	if !ok {
		return ti, "resource-type-id", "type is not a string"
	}

	id, ok := o["id"].(string)
	if !ok {
		return ti, "resource-type-id", "id is not a string"
	}

	ti = [2]string{typ, id}

	links, ok := o["links"].(map[string]interface{})
	if !ok || !isLink(links["self"]) {
		return ti, "resource-self-link", "the resource object has no self link"
	}

	want := strings.TrimSuffix(prefix, "/") + "/" + typ + "/" + id

	// A resource that has no ID yet (a client building a POST document) has no URL
	// made of prefix, type and id either: only the presence of the link is required.
	if got := linkText(links["self"]); id != "" && got != want {
		return ti, "resource-self-link", fmt.Sprintf("self link is %q, want prefix + type + id = %q", got, want)
	}

	if a, ok := o["attributes"]; ok {
		if _, ok := a.(map[string]interface{}); !ok {
			return ti, "attributes-object", "attributes is not an object"
		}
	}

	if r, ok := o["relationships"]; ok {
		rels, ok := r.(map[string]interface{})
		if !ok {
			return ti, "relationships-object", "relationships is not an object"
		}

		for _, name := range sortedIfaceKeys(rels) {
			ro, ok := rels[name].(map[string]interface{})
			if !ok {
				return ti, "relationship-object", fmt.Sprintf("relationship %q is not an object", name)
			}

			rl, ok := ro["links"].(map[string]interface{})
			if !ok || !isLink(rl["self"]) || !isLink(rl["related"]) {
				return ti, "relationship-links", fmt.Sprintf("relationship %q lacks self and related links", name)
			}

			if d, ok := ro["data"]; ok {
				switch dd := d.(type) {
				case nil:
				case map[string]interface{}:
					if m := checkIdentifier(dd); m != "" {
						return ti, "relationship-data", fmt.Sprintf("relationship %q data: %s", name, m)
					}
				case []interface{}:
					for i, e := range dd {
						eo, ok := e.(map[string]interface{})
						if !ok {
							return ti, "relationship-data", fmt.Sprintf("relationship %q data[%d] is not an object", name, i)
						}

						if m := checkIdentifier(eo); m != "" {
							return ti, "relationship-data", fmt.Sprintf("relationship %q data[%d]: %s", name, i, m)
						}
					}
				default:
					return ti, "relationship-data", fmt.Sprintf("relationship %q data is neither null, an identifier nor an array", name)
				}
			}
		}
	}

	return ti, "", ""
}

func sortedIfaceKeys(m map[string]interface{}) []string {
	ks := make([]string, 0, len(m))
	for k := range m {
		ks = append(ks, k)
	}

	// insertion sort: tiny maps, and no need for another import
	for i := 1; i < len(ks); i++ {
		for j := i; j > 0 && ks[j] < ks[j-1]; j-- {
			ks[j], ks[j-1] = ks[j-1], ks[j]
		}
	}

	return ks
}

// Duplicate returns a (type, id) pair that occurs twice across the primary
// resource objects and included, or nil.
func (f *DocFacts) Duplicate() *[2]string {
	seen := map[[2]string]bool{}

	for _, l := range [][][2]string{f.PrimaryObjs, f.Included} {
		for _, ti := range l {
			if seen[ti] {
				c := ti
				return &c
			}

			seen[ti] = true
		}
	}

	return nil
}
