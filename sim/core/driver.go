package core

import (
	"encoding/json"
	"flag"
	"fmt"
	"os"
	"os/exec"
	"path/filepath"
	"runtime"
	"sort"
	"strconv"
	"strings"
	"sync"
	"sync/atomic"
	"time"
)

// Exit codes: 0 property held on everything explored; 1 violation (with a
// VIOLATION line); 2 harness trouble (never a VIOLATION line).
const (
	ExitOK      = 0
	ExitViol    = 1
	ExitHarness = 2
)

// A ReplayFile is a minimised failing run.
type ReplayFile struct {
	Property string   `json:"property"`
	Tier     string   `json:"tier"`
	Engine   string   `json:"engine"`
	TreeHash string   `json:"repo_tree_hash"`
	Seed     uint64   `json:"seed"`
	BaseSeed uint64   `json:"verif_seed"`
	RunIndex int      `json:"run_index"`
	Tape     []uint32 `json:"tape"`
	FromSeed bool     `json:"from_seed,omitempty"` // no tape: the run is re-executed from its seed (it kills the process)
	// PrefixRuns: run indices to execute (in search mode, same process) before the
	// tape. Only used when the violation depends on state the code under test
	// keeps process-wide, left behind by earlier runs of the same worker.
	PrefixRuns  []int    `json:"prefix_runs,omitempty"`
	WorkerFirst int      `json:"worker_first_run"`
	WorkerStep  int      `json:"worker_stride"`
	Original    []uint32 `json:"original_tape,omitempty"` // kept until the minimised tape has been confirmed in a fresh process
	OriginalSig string   `json:"original_signature,omitempty"`
	OriginalMsg string   `json:"original_message,omitempty"`
	OriginalLen int      `json:"original_tape_len"`
	ShrinkRuns  int      `json:"shrink_candidates_run"`
	Signature   string   `json:"signature"`
	Message     string   `json:"message"`
	EventHash   string   `json:"event_log_hash"`
	Trace       []string `json:"trace"`
}

type workerResult struct {
	Stats      *wireStats  `json:"stats"`
	Violation  *ReplayFile `json:"violation,omitempty"`
	Capped     bool        `json:"capped"`
	HarnessErr string      `json:"harness_error,omitempty"`
}

type wireStats struct {
	Runs       int64             `json:"runs"`
	NonTrivial int64             `json:"non_trivial"`
	Counters   map[string]int64  `json:"counters"`
	States     []uint64          `json:"states"`
	RunHashes  []uint64          `json:"run_hashes"`
	Known      map[string]int64  `json:"known"`
	KnownMsg   map[string]string `json:"known_msg"`
	MOApplied  int64             `json:"mo_applied"`
	MONonIdent int64             `json:"mo_non_identity"`
	Steps      int64             `json:"steps"`
	Samples    []Sample          `json:"samples"`
	SetsCapped bool              `json:"sets_capped"`
}

func toWire(s *Stats) *wireStats {
	w := &wireStats{
		Runs: s.Runs, NonTrivial: s.NonTrivial, Counters: s.Counters, Known: s.Known, KnownMsg: s.KnownMsg,
		MOApplied: s.MOApplied, MONonIdent: s.MONonIdent, Steps: s.Steps, Samples: s.Samples, SetsCapped: s.SetsCapped,
	}

	for k := range s.States {
		w.States = append(w.States, k)
	}

	for k := range s.RunHashes {
		w.RunHashes = append(w.RunHashes, k)
	}

	return w
}

func fromWire(w *wireStats) *Stats {
	s := NewStats(nil)
	s.Runs, s.NonTrivial, s.MOApplied, s.MONonIdent, s.Steps = w.Runs, w.NonTrivial, w.MOApplied, w.MONonIdent, w.Steps

	for k, v := range w.Counters {
		s.Counters[k] = v
	}

	for _, k := range w.States {
		s.States[k] = struct{}{}
	}

	for _, k := range w.RunHashes {
		s.RunHashes[k] = struct{}{}
	}

	for k, v := range w.Known {
		s.Known[k] = v
		s.KnownMsg[k] = w.KnownMsg[k]
	}

	s.Samples = w.Samples
	s.SetsCapped = w.SetsCapped

	return s
}

// Options of one invocation.
type Options struct {
	Property  string
	Tier      string
	Seed      uint64
	Workers   int
	Evidence  string
	KnownPath string
	ReplayDir string
	Replay    string
	Verify    bool
	Worker    bool
	Index     int
	Out       string
	RunsOver  int
	CapSec    int
	Hashes    string // "from:count" — print run hashes (determinism self-test)
	TreeHash  string
}

// RunSeed is the seed of run i of a batch.
func RunSeed(base uint64, prop string, i int) uint64 {
	return Mix(Mix(base, HashString(prop)), uint64(i))
}

// Main is the entry point shared by every check command.
func Main(engines map[string]Engine, propEngine map[string]string) {
	var o Options

	var seedStr string

	flag.StringVar(&o.Property, "property", "", "property id")
	flag.StringVar(&o.Tier, "tier", "quick", "quick | thorough")
	flag.StringVar(&seedStr, "seed", "", "VERIF_SEED (default: env VERIF_SEED or 1)")
	flag.IntVar(&o.Workers, "workers", 0, "worker processes (default: number of CPUs)")
	flag.StringVar(&o.Evidence, "evidence", "", "evidence file to write")
	flag.StringVar(&o.KnownPath, "known", "", "known findings file")
	flag.StringVar(&o.ReplayDir, "replaydir", "", "where minimised failing tapes go")
	flag.StringVar(&o.Replay, "replay", "", "replay file to run")
	flag.BoolVar(&o.Verify, "verify", false, "with -replay: require identical signature and event hash (exit 2 otherwise)")
	flag.BoolVar(&o.Worker, "worker", false, "internal: run as worker")
	flag.IntVar(&o.Index, "index", 0, "internal: worker index")
	flag.StringVar(&o.Out, "out", "", "internal: worker result file")
	flag.IntVar(&o.RunsOver, "runs", 0, "override the number of runs of the batch")
	flag.IntVar(&o.CapSec, "cap", 0, "wall-clock cap in seconds for the search (default by tier)")
	flag.StringVar(&o.Hashes, "hashes", "", "from:count — print seed, event hash and verdict of each run")
	flag.Parse()

	if seedStr == "" {
		seedStr = os.Getenv("VERIF_SEED")
	}

	if seedStr == "" {
		seedStr = "1"
	}

	sv, err := strconv.ParseInt(seedStr, 10, 64)
	if err != nil {
		harness("bad seed %q", seedStr)
	}

	o.Seed = uint64(sv)
	o.TreeHash = os.Getenv("VERIF_TREE_HASH")

	if t := os.Getenv("VERIF_TIER"); t != "" && !flagSet("tier") {
		o.Tier = t
	}

	if o.Workers <= 0 {
		o.Workers = runtime.NumCPU()
	}

	if (o.Replay != "" || o.Hashes != "") && os.Getenv("VERIF_WORKER_ENV_SET") == "" {
		// engines that need a special environment (E7: GORACE) get it by re-executing
		prop := o.Property
		if o.Replay != "" {
			if b, err := os.ReadFile(o.Replay); err == nil {
				var rf ReplayFile
				if json.Unmarshal(b, &rf) == nil {
					prop = rf.Property
				}
			}
		}

		if en, ok := propEngine[prop]; ok {
			tmp, err := os.MkdirTemp("", "verif-env-")
			if err == nil {
				if env := WorkerEnv(engines[en], tmp, 0); env != nil {
					cmd := exec.Command(os.Args[0], os.Args[1:]...)
					cmd.Env = append(os.Environ(), env...)
					cmd.Stdout, cmd.Stderr = os.Stdout, os.Stderr
					err := cmd.Run()
					os.RemoveAll(tmp)

					if ee, ok := err.(*exec.ExitError); ok {
						os.Exit(ee.ExitCode())
					}

					if err != nil {
						harness("re-exec: %v", err)
					}

					os.Exit(0)
				}

				os.RemoveAll(tmp)
			}
		}
	}

	if o.Replay != "" {
		os.Exit(replayMain(engines, propEngine, &o))
	}

	en, ok := propEngine[o.Property]
	if !ok {
		harness("unknown or unclaimed property %q", o.Property)
	}

	Thorough = o.Tier == "thorough"

	eng := engines[en]

	if o.CapSec == 0 {
		o.CapSec = 150
		if o.Tier == "thorough" {
			o.CapSec = 1500
		}
	}

	switch {
	case o.Hashes != "":
		hashesMain(eng, &o)
	case o.Worker:
		workerMain(eng, &o)
	default:
		os.Exit(parentMain(eng, &o))
	}
}

func flagSet(name string) bool {
	found := false

	flag.Visit(func(f *flag.Flag) {
		if f.Name == name {
			found = true
		}
	})

	return found
}

func harness(format string, a ...interface{}) {
	fmt.Fprintf(os.Stderr, "HARNESS-ERROR: "+format+"\n", a...)
	killChildren()
	os.Exit(ExitHarness)
}

// children of the parent process that are still running (killed when the parent
// gives up, so that no worker outlives the check)
var (
	childMu  sync.Mutex
	children = map[*os.Process]bool{}
)

func trackChild(p *os.Process, alive bool) {
	childMu.Lock()
	defer childMu.Unlock()

	if alive {
		children[p] = true
	} else {
		delete(children, p)
	}
}

func killChildren() {
	childMu.Lock()
	defer childMu.Unlock()

	for p := range children {
		_ = p.Kill()
	}
}

// ---------------------------------------------------------------------------------------------
// known findings

// KnownFindings is the committed list of genuine defects that were recorded
// rather than repaired (status open) or repaired (status fixed; suppresses nothing).
type KnownFindings struct {
	Findings []KnownFinding `json:"findings"`
}

// KnownFinding is one entry.
type KnownFinding struct {
	Property  string `json:"property"`
	Status    string `json:"status"` // open | fixed
	Commit    string `json:"commit,omitempty"`
	Signature string `json:"signature"`
	What      string `json:"what"`
}

func loadKnown(path, prop string) (map[string]bool, []KnownFinding) {
	open := map[string]bool{}

	if path == "" {
		return open, nil
	}

	b, err := os.ReadFile(path)
	if err != nil {
		if os.IsNotExist(err) {
			return open, nil
		}

		harness("known findings: %v", err)
	}

	var kf KnownFindings
	if err := json.Unmarshal(b, &kf); err != nil {
		harness("known findings: %v", err)
	}

	var list []KnownFinding

	for _, f := range kf.Findings {
		if f.Property == prop && f.Status == "open" {
			open[f.Signature] = true
			list = append(list, f)
		}
	}

	return open, list
}

// ---------------------------------------------------------------------------------------------
// one run

// RunOne performs one run from a tape, isolating harness bugs from library panics.
func RunOne(eng Engine, prop string, t *Tape, st *Stats) *Violation {
	v := eng.Run(prop, t, st)
	st.endRun(t)

	return v
}

func runTape(eng Engine, prop string, seed uint64, tape []uint32, known map[string]bool, keep bool) (*Violation, *Tape) {
	t := NewReplay(seed, tape)
	t.Keep = keep
	st := NewStats(known)
	v := RunOne(eng, prop, t, st)

	return v, t
}

// ---------------------------------------------------------------------------------------------
// worker

func workerMain(eng Engine, o *Options) {
	known, _ := loadKnown(o.KnownPath, o.Property)
	st := NewStats(known)
	total := eng.Runs(o.Property, o.Tier)

	if o.RunsOver > 0 {
		total = o.RunsOver
	}

	res := &workerResult{}
	start := time.Now()
	deadline := start.Add(time.Duration(o.CapSec) * time.Second)

	writeResult := func() {
		res.Stats = toWire(st)

		b, err := json.Marshal(res)
		if err != nil {
			harness("marshal result: %v", err)
		}

		if err := os.WriteFile(o.Out, b, 0o644); err != nil {
			harness("write result: %v", err)
		}
	}

	startWatchdog()

	for i := o.Index; i < total; i += o.Workers {
		if i%64 < o.Workers && time.Now().After(deadline) {
			res.Capped = true
			break
		}

		seed := RunSeed(o.Seed, o.Property, i)
		t := NewTape(seed)
		t.Keep = len(st.Samples) < 2 && o.Index == 0
		watchRun(i)
		v := RunOne(eng, o.Property, t, st)
		watchIdle()

		if t.Keep && v == nil && t.Events > 0 {
			tr := t.Trace
			if len(tr) > 60 {
				tr = append(append([]string{}, tr[:50]...), fmt.Sprintf("… %d more events", len(tr)-50))
			}

			st.Samples = append(st.Samples, Sample{Seed: seed, Draws: t.Pos(), Events: t.Events, Trace: tr})
		}

		if v != nil {
			// The violation is on file as found before it is minimised: should a shrunk
			// candidate never return (the harness or the code under test loops on it), the
			// watchdog ends the process and the parent still has the unshrunk tape.
			res.Violation = &ReplayFile{
				Property: o.Property, Tier: o.Tier, Engine: eng.Name(), TreeHash: o.TreeHash, Seed: seed, BaseSeed: o.Seed, RunIndex: i,
				Tape: t.Rec, OriginalLen: len(t.Rec), Signature: v.Signature(), Message: v.Message, EventHash: "not-comparable",
				Trace:       []string{"(unshrunk tape: minimisation did not finish; the trace is printed by ./run.sh replay)"},
				WorkerFirst: o.Index, WorkerStep: o.Workers,
			}
			writeResult()

			watchMinimise()
			res.Violation = minimise(eng, o, seed, i, t.Rec, v, known)
			watchIdle()
			res.Violation.WorkerFirst, res.Violation.WorkerStep = o.Index, o.Workers

			break
		}
	}

	writeResult()
}

// ---------------------------------------------------------------------------------------------
// watchdog: a run that never returns

// StallLimit is how long a single run may take before the process gives up on it.
// Runs take milliseconds (E7 with a large page: seconds); the limit is two orders
// of magnitude above the slowest run seen under full load.
var StallLimit = 120 * time.Second

var (
	watchPhase atomic.Int32 // 0 idle, 1 run of the search, 2 minimising
	watchSince atomic.Int64 // unix nanoseconds
	watchIndex atomic.Int64
	watchOnce  sync.Once
)

func watchRun(i int) {
	watchIndex.Store(int64(i))
	watchSince.Store(time.Now().UnixNano())
	watchPhase.Store(1)
}

func watchMinimise() {
	watchSince.Store(time.Now().UnixNano())
	watchPhase.Store(2)
}

func watchIdle() { watchPhase.Store(0) }

// startWatchdog starts the goroutine that ends the process when a run of the
// search has not returned within StallLimit (reported like a fatal runtime
// error: all goroutine stacks, then a "fatal error:" line naming the run), or
// when minimisation hangs (exit 0: the unshrunk result is already on file).
func startWatchdog() {
	watchOnce.Do(func() {
		if s := os.Getenv("VERIF_STALL_LIMIT_S"); s != "" {
			if n, err := strconv.Atoi(s); err == nil && n > 0 {
				StallLimit = time.Duration(n) * time.Second
			}
		}

		go func() {
			for {
				time.Sleep(time.Second)

				ph := watchPhase.Load()
				if ph == 0 {
					continue
				}

				limit := StallLimit
				if ph == 2 {
					limit += 90 * time.Second // minimisation has its own budget of 60 s between candidates
				}

				if time.Since(time.Unix(0, watchSince.Load())) < limit {
					continue
				}

				if ph == 2 {
					fmt.Fprintf(os.Stderr, "minimisation did not finish within %s: the violation is reported with its unshrunk tape\n", limit)
					os.Exit(0)
				}

				buf := make([]byte, 1<<20)
				buf = buf[:runtime.Stack(buf, true)]
				os.Stderr.Write(buf)
				fmt.Fprintf(os.Stderr, "\nfatal error: %s run %d did not return within %s\n", stallMarker, watchIndex.Load(), StallLimit)
				os.Exit(3)
			}
		}()
	})
}

const stallMarker = "verif-stall:"

// stalledRun extracts the run index from a watchdog dump, or -1.
func stalledRun(log string) int {
	i := strings.LastIndex(log, "fatal error: "+stallMarker+" run ")
	if i < 0 {
		return -1
	}

	var n int
	if _, err := fmt.Sscanf(log[i+len("fatal error: "+stallMarker+" run "):], "%d", &n); err != nil {
		return -1
	}

	return n
}

// minimise shrinks a failing tape while the run still ends in the same
// signature. Budget: 2000 candidate runs or 60 s.
func minimise(eng Engine, o *Options, seed uint64, idx int, tape []uint32, v *Violation, known map[string]bool) *ReplayFile {
	sig := v.Signature()
	best := append([]uint32{}, tape...)
	tries := 0
	deadline := time.Now().Add(60 * time.Second)

	if ns, ok := eng.(interface{ NoInProcessShrink(sig string) bool }); ok && ns.NoInProcessShrink(sig) {
		// the oracle cannot be re-evaluated in this process (the race detector
		// reports a given pair of stacks once per process): keep the tape as found
		t := NewReplay(seed, tape)
		t.Keep = true
		_ = t

		return &ReplayFile{
			Property: o.Property, Tier: o.Tier, Engine: eng.Name(), TreeHash: o.TreeHash, Seed: seed, BaseSeed: o.Seed, RunIndex: idx,
			Tape: best, OriginalLen: len(tape), ShrinkRuns: 0,
			Signature: sig, Message: v.Message, EventHash: "not-comparable", Trace: []string{"(trace is printed by the replay)"},
		}
	}

	try := func(c []uint32) bool {
		if tries >= 2000 || time.Now().After(deadline) {
			return false
		}

		tries++

		cv, _ := runTape(eng, o.Property, seed, c, known, false)

		return cv != nil && cv.Signature() == sig
	}

	// Drop trailing zeros: an exhausted tape yields zeros anyway.
	trim := func(c []uint32) []uint32 {
		for len(c) > 0 && c[len(c)-1] == 0 {
			c = c[:len(c)-1]
		}

		return c
	}

	best = trim(best)

	improved := true
	for improved && tries < 2000 && time.Now().Before(deadline) {
		improved = false

		// truncate tail
		for n := len(best) / 2; n >= 1; n /= 2 {
			for len(best) > n {
				c := trim(append([]uint32{}, best[:len(best)-n]...))
				if try(c) {
					best = c
					improved = true
				} else {
					break
				}
			}
		}

		// delete blocks
		for _, bs := range []int{8, 4, 2, 1} {
			for i := 0; i+bs <= len(best); {
				c := append(append([]uint32{}, best[:i]...), best[i+bs:]...)
				c = trim(c)

				if try(c) {
					best = c
					improved = true
				} else {
					i++
				}
			}
		}

		// zero, then halve, single draws
		for i := 0; i < len(best); i++ {
			if best[i] == 0 {
				continue
			}

			c := append([]uint32{}, best...)
			c[i] = 0

			if try(trim(c)) {
				best = trim(c)
				improved = true

				continue
			}

			for h := best[i] / 2; h > 0; h /= 2 {
				c := append([]uint32{}, best...)
				c[i] = h

				if try(c) {
					best = c
					improved = true
				} else {
					break
				}
			}

			if i < len(best) && best[i] > 1 {
				c := append([]uint32{}, best...)
				c[i]--

				if try(c) {
					best = c
					improved = true
				}
			}
		}
	}

	fv, ft := runTape(eng, o.Property, seed, best, known, true)
	if fv == nil || fv.Signature() != sig {
		// Cannot happen if runs are deterministic; fall back to the original tape.
		best = tape
		fv, ft = runTape(eng, o.Property, seed, best, known, true)

		if fv == nil {
			// Not reproducible in this process: the code under test keeps process-wide
			// state. Hand the tape over as found; the parent replays it in a fresh process.
			return &ReplayFile{
				Property: o.Property, Tier: o.Tier, Engine: eng.Name(), TreeHash: o.TreeHash, Seed: seed, BaseSeed: o.Seed, RunIndex: idx,
				Tape: tape, OriginalLen: len(tape), ShrinkRuns: tries,
				Signature: sig, Message: v.Message, EventHash: "not-comparable",
				Trace: []string{"(unshrunk tape: the violation depends on process-wide state of the code under test and could not be re-evaluated in the worker; the trace is printed by ./run.sh replay)"},
			}
		}
	}

	return &ReplayFile{
		Property: o.Property, Tier: o.Tier, Engine: eng.Name(), TreeHash: o.TreeHash, Seed: seed, BaseSeed: o.Seed, RunIndex: idx,
		Tape: best, Original: tape, OriginalSig: sig, OriginalMsg: v.Message, OriginalLen: len(tape), ShrinkRuns: tries,
		Signature: fv.Signature(), Message: fv.Message,
		EventHash: fmt.Sprintf("%016x", ft.EventHash()), Trace: ft.Trace,
	}
}

// ---------------------------------------------------------------------------------------------
// determinism self-test helper

func hashesMain(eng Engine, o *Options) {
	parts := strings.Split(o.Hashes, ":")
	if len(parts) != 2 {
		harness("-hashes wants from:count")
	}

	from, _ := strconv.Atoi(parts[0])
	count, _ := strconv.Atoi(parts[1])
	known, _ := loadKnown(o.KnownPath, o.Property)
	st := NewStats(known)

	for i := from; i < from+count; i++ {
		seed := RunSeed(o.Seed, o.Property, i)
		t := NewTape(seed)
		v := RunOne(eng, o.Property, t, st)
		verdict := "ok"

		if v != nil {
			verdict = v.Signature()
		}

		fmt.Printf("%d %016x %d %d %s\n", i, t.EventHash(), t.Pos(), t.Events, verdict)
	}

	for _, k := range SortedKeys(st.Known) {
		fmt.Printf("known %s %d\n", k, st.Known[k])
	}
}

// ---------------------------------------------------------------------------------------------
// replay

func replayMain(engines map[string]Engine, propEngine map[string]string, o *Options) int {
	b, err := os.ReadFile(o.Replay)
	if err != nil {
		harness("replay: %v", err)
	}

	var rf ReplayFile
	if err := json.Unmarshal(b, &rf); err != nil {
		harness("replay: %v", err)
	}

	en, ok := propEngine[rf.Property]
	if !ok {
		harness("replay: property %q is not claimed", rf.Property)
	}

	eng := engines[en]
	Thorough = rf.Tier == "thorough"
	known, _ := loadKnown(o.KnownPath, rf.Property)

	if rf.FromSeed && os.Getenv("VERIF_FATAL_CHILD") == "" {
		cmd := exec.Command(os.Args[0], os.Args[1:]...)
		cmd.Env = append(os.Environ(), "VERIF_FATAL_CHILD=1")
		b, err := cmd.CombinedOutput()

		if err != nil && isLibraryFatal(string(b)) {
			if !o.Verify {
				fmt.Printf("%s\n", clipTail(string(b), 3000))
			}

			fmt.Printf("reproduced: the run kills the process: %s\n", fatalLine(string(b)))
			fmt.Printf("VIOLATION property=%s replay=%s\n", rf.Property, o.Replay)

			return ExitViol
		}

		if o.Verify {
			fmt.Printf("REPLAY-DIVERGED property=%s: the recorded run no longer kills the process\n", rf.Property)
			return ExitHarness
		}

		fmt.Printf("REPLAY-CLEAN property=%s: the recorded run (%s) does not kill the process on this tree\n", rf.Property, rf.Signature)

		return ExitOK
	}

	if rf.FromSeed {
		st := NewStats(known)

		startWatchdog()
		watchRun(rf.RunIndex)
		RunOne(eng, rf.Property, NewTape(rf.Seed), st)
		watchIdle()

		return ExitOK
	}

	if len(rf.PrefixRuns) > 0 {
		// recreate the process-wide state the failing run started from
		pst := NewStats(known)
		for _, i := range rf.PrefixRuns {
			RunOne(eng, rf.Property, NewTape(RunSeed(rf.BaseSeed, rf.Property, i)), pst)
		}

		if !o.Verify {
			fmt.Printf("  (%d earlier runs of the same worker replayed first)\n", len(rf.PrefixRuns))
		}
	}

	v, t := runTape(eng, rf.Property, rf.Seed, rf.Tape, known, true)

	if !o.Verify {
		for _, l := range t.Trace {
			fmt.Println("  " + l)
		}
	}

	hash := fmt.Sprintf("%016x", t.EventHash())

	switch {
	case v == nil:
		if o.Verify {
			fmt.Printf("REPLAY-DIVERGED property=%s: recorded %s, replay found no violation\n", rf.Property, rf.Signature)
			return ExitHarness
		}

		fmt.Printf("REPLAY-CLEAN property=%s: the recorded violation (%s) does not occur on this tree\n", rf.Property, rf.Signature)

		return ExitOK
	case v.Signature() != rf.Signature || (hash != rf.EventHash && rf.EventHash != "not-comparable"):
		if o.Verify {
			fmt.Printf("REPLAY-DIVERGED property=%s: recorded %s/%s, replay %s/%s\n", rf.Property, rf.Signature, rf.EventHash, v.Signature(), hash)
			return ExitHarness
		}

		fmt.Printf("replay ends differently from the recording (tree changed?): %s\n", v)
		fmt.Printf("VIOLATION property=%s replay=%s\n", rf.Property, o.Replay)

		return ExitViol
	default:
		fmt.Printf("reproduced exactly: %s\n", v)
		fmt.Printf("VIOLATION property=%s replay=%s\n", rf.Property, o.Replay)

		return ExitViol
	}
}

// ---------------------------------------------------------------------------------------------
// parent

func parentMain(eng Engine, o *Options) int {
	start := time.Now()
	_, openList := loadKnown(o.KnownPath, o.Property)
	total := eng.Runs(o.Property, o.Tier)

	if o.RunsOver > 0 {
		total = o.RunsOver
	}

	if o.Workers > total {
		o.Workers = total
	}

	tmp, err := os.MkdirTemp("", "verif-res-")
	if err != nil {
		harness("tmp: %v", err)
	}

	defer os.RemoveAll(tmp)

	fmt.Printf("property=%s engine=%s tier=%s seed=%d runs=%d workers=%d\n", o.Property, eng.Name(), o.Tier, o.Seed, total, o.Workers)

	type proc struct {
		cmd *exec.Cmd
		out string
		log *strings.Builder
	}

	// The batch is split into "virtual workers" (index v, stride V). Normally V is
	// the number of worker processes. An engine whose oracle depends on process-wide
	// state being cold (E7: lazily initialised package-level state races only the
	// first time) asks for short-lived processes: V grows, and at most o.Workers of
	// them run at a time.
	virtual := o.Workers
	if rp, ok := eng.(interface{ RunsPerProcess() int }); ok && rp.RunsPerProcess() > 0 {
		if v := (total + rp.RunsPerProcess() - 1) / rp.RunsPerProcess(); v > virtual {
			virtual = v
		}
	}

	procs := make([]*proc, virtual)
	sem := make(chan struct{}, o.Workers)
	done := make(chan int, virtual)
	errs := make([]error, virtual)
	var stopLaunch atomic.Bool

	go func() {
		for w := 0; w < virtual; w++ {
			sem <- struct{}{}

			if stopLaunch.Load() {
				errs[w] = errSkipped
				done <- w
				<-sem

				continue
			}

			out := filepath.Join(tmp, fmt.Sprintf("w%d.json", w))
			args := []string{
				"-worker", "-property", o.Property, "-tier", o.Tier, "-seed", fmt.Sprint(int64(o.Seed)),
				"-workers", fmt.Sprint(virtual), "-index", fmt.Sprint(w), "-out", out,
				"-known", o.KnownPath, "-cap", fmt.Sprint(o.CapSec),
			}

			if o.RunsOver > 0 {
				args = append(args, "-runs", fmt.Sprint(o.RunsOver))
			}

			cmd := exec.Command(os.Args[0], args...)
			lg := &strings.Builder{}
			cmd.Stdout = lg
			cmd.Stderr = lg
			cmd.Env = append(os.Environ(), WorkerEnv(eng, tmp, w)...)
			procs[w] = &proc{cmd: cmd, out: out, log: lg}

			if err := cmd.Start(); err != nil {
				errs[w] = err
				done <- w
				<-sem

				continue
			}

			trackChild(cmd.Process, true)

			go func(w int) {
				errs[w] = procs[w].cmd.Wait()
				trackChild(procs[w].cmd.Process, false)
				done <- w
				<-sem
			}(w)
		}
	}()

	agg := NewStats(nil)

	var (
		viols     []*ReplayFile
		capped    bool
		fatalLogs []fatalWorker
	)

	deadline := start.Add(time.Duration(o.CapSec) * time.Second)

	for n := 0; n < virtual; n++ {
		w := <-done
		p := procs[w]

		if errs[w] == errSkipped {
			capped = true
			continue
		}

		if err := errs[w]; err != nil {
			tail := ""
			if p != nil {
				tail = p.log.String()
			}

			if len(tail) > 6000 {
				tail = tail[len(tail)-6000:]
			}

			// A fatal runtime error raised with library code on the stack (out of memory,
			// stack overflow, concurrent map access) cannot be recovered by the worker; it
			// is a failure of the code under test, not of the harness.
			if full := p.log.String(); p != nil && isLibraryFatal(full) {
				fatalLogs = append(fatalLogs, fatalWorker{index: w, log: full})
				stopLaunch.Store(true)

				continue
			}

			fmt.Fprintf(os.Stderr, "%s\n", tail)
			harness("worker %d died: %v", w, err)
		}

		b, err := os.ReadFile(p.out)
		if err != nil {
			harness("worker %d left no result: %v", w, err)
		}

		var r workerResult
		if err := json.Unmarshal(b, &r); err != nil {
			harness("worker %d result: %v", w, err)
		}

		os.Remove(p.out)
		agg.Merge(fromWire(r.Stats))

		capped = capped || r.Capped

		if r.Violation != nil {
			viols = append(viols, r.Violation)
			stopLaunch.Store(true) // a violation ends the batch: no further processes are started
		}

		if time.Now().After(deadline) {
			stopLaunch.Store(true)
		}
	}

	// a worker killed by a fatal error in library code: find the run that does it
	if len(viols) == 0 && len(fatalLogs) > 0 {
		if rf := locateFatal(eng, o, tmp, virtual, total, fatalLogs[0]); rf != nil {
			viols = append(viols, rf)
		} else {
			fmt.Fprintf(os.Stderr, "%s\n", clipTail(fatalLogs[0].log, 6000))
			harness("worker %d died with a fatal error that could not be pinned to one run", fatalLogs[0].index)
		}
	}

	wall := time.Since(start).Seconds()
	code := ExitOK

	for _, f := range openList {
		fmt.Printf("KNOWN-FINDING: property=%s %s [signature %s; met in %d runs of this batch]\n",
			o.Property, f.What, f.Signature, agg.Known[f.Signature])
	}

	var chosen *ReplayFile

	if len(viols) > 0 {
		sort.Slice(viols, func(i, j int) bool { return viols[i].RunIndex < viols[j].RunIndex })

		if err := os.MkdirAll(o.ReplayDir, 0o755); err != nil {
			harness("replay dir: %v", err)
		}

		// Candidates are confirmed in a fresh process, lowest run first. One that does not
		// reproduce (the code under test keeps nondeterministic process-wide state, e.g. a
		// sync.Pool) gives way to the next; if none reproduces the first one is reported
		// all the same, flagged: a violation was observed against the real code.
		var (
			path                 string
			unconfirmed          []string
			attempts, reproduced int
		)

	candidates:
		for ci := 0; ci <= len(viols); ci++ {
			if ci == len(viols) {
				chosen = viols[0]
				path = filepath.Join(o.ReplayDir, fmt.Sprintf("%s-seed%d-run%d.json", o.Property, int64(o.Seed), chosen.RunIndex))
				fmt.Printf("UNREPRODUCED: %d failing runs were observed in this batch but none fails again in a fresh process (nondeterministic process-wide state in the code under test); reporting the first one\n", len(viols))

				break
			}

			chosen = viols[ci]
			path = filepath.Join(o.ReplayDir, fmt.Sprintf("%s-seed%d-run%d.json", o.Property, int64(o.Seed), chosen.RunIndex))
			b, _ := json.MarshalIndent(chosen, "", " ")

			if err := os.WriteFile(path, b, 0o644); err != nil {
				harness("write replay: %v", err)
			}

			// The minimised tape must fail the same way in a fresh process.
			attempts, reproduced = 1, 0
			if flaky, ok := eng.(interface{ ReplayAttempts(sig string) int }); ok {
				attempts = flaky.ReplayAttempts(chosen.Signature)
			}

			var vout []byte

			for a := 0; a < attempts; a++ {
				vc := exec.Command(os.Args[0], "-replay", path, "-verify", "-known", o.KnownPath)
				vc.Env = append(os.Environ(), WorkerEnv(eng, tmp, 1000+a)...)

				var verr error

				vout, verr = vc.CombinedOutput()
				if ee, ok := verr.(*exec.ExitError); ok && ee.ExitCode() == ExitViol {
					reproduced++
				}
			}

			if reproduced == 0 && attempts == 1 && len(chosen.Original) > 0 {
				// Shrinking runs candidates in one process; if the code under test keeps
				// process-wide state (a pool, a memo), a candidate can fail only because of
				// what an earlier candidate left behind. Fall back to the tape as found.
				fmt.Printf("the minimised tape does not fail in a fresh process (process-wide state in the code under test misled the shrinker); falling back to the tape as found\n")

				chosen.Tape, chosen.Signature, chosen.Message = chosen.Original, chosen.OriginalSig, chosen.OriginalMsg
				chosen.EventHash, chosen.Trace = "not-comparable", []string{"(unshrunk tape; the trace is printed by ./run.sh replay)"}
				b, _ := json.MarshalIndent(chosen, "", " ")

				if err := os.WriteFile(path, b, 0o644); err != nil {
					harness("write replay: %v", err)
				}

				vc := exec.Command(os.Args[0], "-replay", path, "-verify", "-known", o.KnownPath)
				vc.Env = append(os.Environ(), WorkerEnv(eng, tmp, 2000)...)

				var verr error

				vout, verr = vc.CombinedOutput()
				if ee, ok := verr.(*exec.ExitError); ok && ee.ExitCode() == ExitViol {
					reproduced++
				}
			}

			if reproduced == 0 && attempts == 1 && chosen.WorkerStep > 0 {
				// The run depends on what earlier runs of its worker left in process-wide
				// state of the code under test: replay the last 1, 2, 4, ... of them first.
				var all []int
				for i := chosen.WorkerFirst; i < chosen.RunIndex; i += chosen.WorkerStep {
					all = append(all, i)
				}

				for n := 1; reproduced == 0; n *= 2 {
					if n > len(all) {
						n = len(all)
					}

					chosen.PrefixRuns = all[len(all)-n:]
					b, _ := json.MarshalIndent(chosen, "", " ")

					if err := os.WriteFile(path, b, 0o644); err != nil {
						harness("write replay: %v", err)
					}

					vc := exec.Command(os.Args[0], "-replay", path, "-verify", "-known", o.KnownPath)
					vc.Env = append(os.Environ(), WorkerEnv(eng, tmp, 3000+n)...)

					var verr error

					vout, verr = vc.CombinedOutput()
					if ee, ok := verr.(*exec.ExitError); ok && ee.ExitCode() == ExitViol {
						reproduced++
						fmt.Printf("the violation depends on process-wide state of the code under test: it reproduces in a fresh process when the %d preceding runs of its worker are replayed first (recorded in the replay file)\n", n)
					}

					if n == len(all) {
						break
					}
				}
			}

			if reproduced == 0 && attempts == 1 {
				unconfirmed = append(unconfirmed, path)
				_ = vout

				if ci < 8 {
					continue candidates
				}

				ci = len(viols) - 1

				continue candidates
			}

			chosen.Original = nil

			break
		}

		for _, u := range unconfirmed {
			if u != path {
				os.Remove(u)
			}
		}

		if attempts > 1 {
			fmt.Printf("replay of the recorded schedule in fresh processes: the report was reproduced in %d of %d (the schedule replays exactly; whether the race detector reports depends on happens-before edges that sync.Pool inside fmt / encoding/json adds at random)\n", reproduced, attempts)
		}

		fmt.Printf("violation: %s\n  %s\n  seed=%d run=%d tape %d -> %d draws after %d shrink candidates; %d distinct workers failed\n",
			chosen.Signature, chosen.Message, int64(o.Seed), chosen.RunIndex, chosen.OriginalLen, len(chosen.Tape), chosen.ShrinkRuns, len(viols))

		n := len(chosen.Trace)
		from := 0

		if n > 40 {
			from = n - 40
		}

		for _, l := range chosen.Trace[from:] {
			fmt.Println("    " + l)
		}

		fmt.Printf("VIOLATION property=%s replay=%s\n", o.Property, path)

		code = ExitViol
	}

	if agg.Runs == 0 && code != ExitViol {
		harness("no run was executed")
	}

	if agg.Runs == 0 {
		agg.Runs = 1 // the run that killed its worker
	}

	if o.Evidence != "" {
		writeEvidence(eng, o, agg, wall, len(viols), capped, total)
	}

	fmt.Printf("runs=%d non-trivial=%d distinct-run-hashes=%d distinct-states=%d wall=%.1fs (%.0f runs/hour)%s\n",
		agg.Runs, agg.NonTrivial, len(agg.RunHashes), len(agg.States), wall, float64(agg.Runs)/wall*3600,
		map[bool]string{true: " [wall-clock cap reached]", false: ""}[capped])

	return code
}

var errSkipped = fmt.Errorf("not started")

type fatalWorker struct {
	index int
	log   string
}

func clipTail(s string, n int) string {
	if len(s) > n {
		return s[len(s)-n:]
	}

	return s
}

// isLibraryFatal: the process died of a Go runtime fatal error and the dump shows
// a frame of the package under test.
func isLibraryFatal(log string) bool {
	fatal := strings.Contains(log, "fatal error:") || strings.Contains(log, "runtime: goroutine stack exceeds") || strings.Contains(log, "runtime: out of memory")

	return fatal && strings.Contains(log, pkgPrefix)
}

// stackOfMain cuts the stack of the main goroutine out of a dump of all stacks.
func stackOfMain(log string) string {
	i := strings.Index(log, "goroutine 1 [")
	if i < 0 {
		return log
	}

	rest := log[i:]
	if j := strings.Index(rest, "\n\n"); j > 0 {
		rest = rest[:j]
	}

	return rest
}

func fatalLine(log string) string {
	for _, l := range strings.Split(log, "\n") {
		if strings.HasPrefix(l, "fatal error:") || strings.HasPrefix(l, "runtime: out of memory") || strings.HasPrefix(l, "runtime: goroutine stack exceeds") {
			return strings.TrimSpace(l)
		}
	}

	return "fatal error"
}

// locateFatal finds, by bisection over the number of runs, the run of a worker
// that kills the process, and returns a replay file for it (the run is re-executed
// from its seed: there is no tape to shrink when the process dies).
func locateFatal(eng Engine, o *Options, tmp string, virtual, total int, fw fatalWorker) *ReplayFile {
	dies := func(limit int) (bool, string) {
		out := filepath.Join(tmp, fmt.Sprintf("bisect-%d.json", limit))
		cmd := exec.Command(os.Args[0], "-worker", "-property", o.Property, "-tier", o.Tier, "-seed", fmt.Sprint(int64(o.Seed)),
			"-workers", fmt.Sprint(virtual), "-index", fmt.Sprint(fw.index), "-out", out, "-known", o.KnownPath, "-cap", "600", "-runs", fmt.Sprint(limit))
		cmd.Env = append(os.Environ(), WorkerEnv(eng, tmp, 5000+limit%1000)...)
		b, err := cmd.CombinedOutput()
		os.Remove(out)

		return err != nil && isLibraryFatal(string(b)), string(b)
	}

	if idx := stalledRun(fw.log); idx >= 0 {
		// the watchdog names the run; the parent's confirmation replay re-executes it
		line := fatalLine(fw.log[strings.LastIndex(fw.log, "fatal error: "+stallMarker):])

		return &ReplayFile{
			Property: o.Property, Tier: o.Tier, Engine: eng.Name(), TreeHash: o.TreeHash,
			Seed: RunSeed(o.Seed, o.Property, idx), BaseSeed: o.Seed, RunIndex: idx, FromSeed: true,
			Signature: o.Property + "|returns|runtime|run-does-not-return",
			Message:   "an operation does not return (library code on the stack when the watchdog gave up): " + line + "\n" + clipTail(stackOfMain(fw.log), 3000),
			EventHash: "not-comparable", Trace: []string{"(the run is re-executed from its seed; it does not return)"},
		}
	}

	lo, hi := fw.index, total // runs with index < lo are fine; the worker dies when it may run indexes < hi
	if d, _ := dies(hi); !d {
		return nil
	}

	for hi-lo > virtual {
		mid := lo + (hi-lo)/2
		if d, _ := dies(mid); d {
			hi = mid
		} else {
			lo = mid
		}
	}

	// the worker's last index below hi
	idx := fw.index
	for idx+virtual < hi {
		idx += virtual
	}

	_, log := dies(idx + 1)
	line := fatalLine(log)

	return &ReplayFile{
		Property: o.Property, Tier: o.Tier, Engine: eng.Name(), TreeHash: o.TreeHash,
		Seed: RunSeed(o.Seed, o.Property, idx), BaseSeed: o.Seed, RunIndex: idx, FromSeed: true,
		Signature: o.Property + "|no-fatal-error|runtime|" + line,
		Message:   "the process is killed by a Go runtime fatal error with library code on the stack (it cannot be recovered like a panic): " + line + "\n" + clipTail(log, 3000),
		EventHash: "not-comparable", Trace: []string{"(the run is re-executed from its seed; it kills the process)"},
	}
}

// WorkerEnv lets an engine add environment variables for its workers (E7 sets GORACE).
func WorkerEnv(eng Engine, tmp string, index int) []string {
	if we, ok := eng.(interface {
		WorkerEnv(tmp string, index int) []string
	}); ok {
		return append(we.WorkerEnv(tmp, index), "VERIF_WORKER_ENV_SET=1")
	}

	return nil
}

// ---------------------------------------------------------------------------------------------
// evidence

func writeEvidence(eng Engine, o *Options, agg *Stats, wall float64, nviol int, capped bool, planned int) {
	d := eng.Describe(o.Property)

	counters := map[string]int64{}
	faults := map[string]int64{}
	probes := map[string]int64{}
	ops := map[string]int64{}

	for _, k := range SortedKeys(agg.Counters) {
		v := agg.Counters[k]

		switch {
		case strings.HasPrefix(k, "fault:"):
			faults[strings.TrimPrefix(k, "fault:")] = v
		case strings.HasPrefix(k, "probe:"):
			probes[strings.TrimPrefix(k, "probe:")] = v
		case strings.HasPrefix(k, "op:"):
			ops[strings.TrimPrefix(k, "op:")] = v
		default:
			counters[k] = v
		}
	}

	for _, f := range d.FaultKinds {
		if _, ok := faults[f]; !ok {
			faults[f] = 0
		}
	}

	var stuck []string

	for _, p := range d.Probes {
		if probes[p] == 0 {
			probes[p] = 0

			stuck = append(stuck, p)
		}
	}

	samples := []interface{}{}
	for _, s := range agg.Samples {
		samples = append(samples, s)
	}

	if len(samples) == 0 {
		samples = append(samples, "no sample trace was recorded (every sampled run ended early)")
	}

	distinct := len(agg.RunHashes)

	cov := map[string]interface{}{
		"evaluations":                      agg.Runs,
		"distinct_nontrivial":              distinct,
		"rule":                             d.Rule,
		"samples":                          samples,
		"exhaustive":                       false,
		"runs_planned":                     planned,
		"wall_clock_cap_reached":           capped,
		"runs_per_hour":                    int64(float64(agg.Runs) / wall * 3600),
		"seeds":                            fmt.Sprintf("VERIF_SEED=%d; run i uses seed Mix(Mix(VERIF_SEED, hash(property)), i), i in [0,%d)", int64(o.Seed), planned),
		"scheduler_steps":                  agg.Steps,
		"operations_by_kind":               ops,
		"fault_kinds_fired":                faults,
		"probes_hit":                       probes,
		"probes_stuck_at_zero":             stuck,
		"counters":                         counters,
		"distinct_model_states":            len(agg.States),
		"distinct_run_event_logs":          distinct,
		"distinct_counts_are_lower_bounds": agg.SetsCapped,
		"s1_map_range_executions":          agg.MOApplied,
		"s1_non_identity_orders":           agg.MONonIdent,
		"simulated_time":                   "not applicable: the library reads no clock and has no timer; progress is counted in scheduler steps and operations",
		"components_real":                  d.Real,
		"components_stub":                  d.Stub,
		"known_findings_met":               agg.Known,
		"worker_processes":                 o.Workers,
		"repo_tree_hash":                   o.TreeHash,
		"technique":                        "deterministic simulation with fault injection (seeded tape, replayable, shrinking)",
	}

	ev := map[string]interface{}{
		"property_id": o.Property,
		"tier":        o.Tier,
		"seed":        int64(o.Seed),
		"level":       d.Level,
		"coverage":    cov,
		"assumptions": d.Assumptions,
		"wall_s":      wall,
		"violations":  nviol,
	}

	b, err := json.MarshalIndent(ev, "", " ")
	if err != nil {
		harness("evidence: %v", err)
	}

	if err := os.MkdirAll(filepath.Dir(o.Evidence), 0o755); err != nil {
		harness("evidence: %v", err)
	}

	if err := os.WriteFile(o.Evidence, append(b, '\n'), 0o644); err != nil {
		harness("evidence: %v", err)
	}
}
