// Package core holds the simulator's run-independent machinery: the tape every
// decision is drawn from, the event log, the map-order scheduler (seam S1),
// violations and their signatures, the shrinker, replay files, known findings
// and the evidence writer.
package core

import (
	"fmt"
	"hash/fnv"
)

// A Tape is the single source of every decision of one simulated run. In search
// mode draws come from a splitmix64 stream seeded with the run's seed and are
// recorded; in replay mode they come from the recorded slice (an exhausted tape
// yields zeros, so a truncated tape is a shorter, simpler run).
type Tape struct {
	Seed   uint64
	state  uint64
	replay []uint32
	isRep  bool
	pos    int
	Rec    []uint32

	// Event log. Every event is hashed; the text is kept only when Keep is set
	// (replay, samples). Logging never draws and never reads a clock.
	Keep   bool
	Trace  []string
	evHash uint64
	Events int
}

const fnvOffset = 14695981039346656037
const fnvPrime = 1099511628211

// NewTape returns a tape in search mode.
func NewTape(seed uint64) *Tape {
	return &Tape{Seed: seed, state: seed, evHash: fnvOffset}
}

// NewReplay returns a tape that replays rec.
func NewReplay(seed uint64, rec []uint32) *Tape {
	return &Tape{Seed: seed, replay: rec, isRep: true, evHash: fnvOffset}
}

func splitmix(s *uint64) uint64 {
	*s += 0x9e3779b97f4a7c15
	z := *s
	z = (z ^ (z >> 30)) * 0xbf58476d1ce4e5b9
	z = (z ^ (z >> 27)) * 0x94d049bb133111eb

	return z ^ (z >> 31)
}

// Mix derives a new seed from a seed and a stream number.
func Mix(seed uint64, n uint64) uint64 {
	s := seed ^ (n+1)*0xd6e8feb86659fd93
	splitmix(&s)

	return splitmix(&s)
}

// Draw returns a value in [0,n). n < 1 is treated as 1.
func (t *Tape) Draw(n int) int {
	if n <= 1 {
		// Still consumes a slot so that a tape position means the same thing
		// whatever the bound turned out to be.
		n = 1
	}

	var v uint32

	if t.isRep {
		if t.pos < len(t.replay) {
			v = t.replay[t.pos] % uint32(n)
		}
	} else {
		v = uint32(splitmix(&t.state) % uint64(n))
	}

	t.pos++
	t.Rec = append(t.Rec, v)

	return int(v)
}

// Bool is true with probability num/den.
func (t *Tape) Bool(num, den int) bool { return t.Draw(den) < num }

// Range draws from [lo,hi].
func (t *Tape) Range(lo, hi int) int { return lo + t.Draw(hi-lo+1) }

// More decides whether a bounded loop continues: zero (and an exhausted tape)
// means stop, so truncating a tape ends the history there.
func (t *Tape) More(den int) bool { return t.Draw(den) != 0 }

// Seed64 draws a 64-bit seed for a derived stream (two slots).
func (t *Tape) Seed64() uint64 {
	a := uint64(t.Draw(1 << 30))
	b := uint64(t.Draw(1 << 30))

	return a<<30 | b
}

// Thorough is set for the thorough tier (and when replaying a tape found there):
// half of the runs then use the deeper bounds (longer histories, more tasks).
var Thorough bool

// Bound returns the bound of a history or world: quick normally; in the thorough
// tier a per-run coin decides between quick and deep.
func (t *Tape) Bound(quick, deep int) int {
	if !Thorough {
		return quick
	}

	if t.Draw(2) == 1 {
		return deep
	}

	return quick
}

// Pos is the number of draws made so far.
func (t *Tape) Pos() int { return t.pos }

// Logf appends an event to the run's event log.
func (t *Tape) Logf(format string, a ...interface{}) {
	s := fmt.Sprintf(format, a...)
	h := t.evHash

	for i := 0; i < len(s); i++ {
		h ^= uint64(s[i])
		h *= fnvPrime
	}

	h ^= 0xff
	h *= fnvPrime
	t.evHash = h
	t.Events++

	if t.Keep {
		if len(t.Trace) < 4000 {
			t.Trace = append(t.Trace, s)
		}
	}
}

// EventHash is the hash of the whole event log so far.
func (t *Tape) EventHash() uint64 { return t.evHash }

// HashString is a small helper for state fingerprints.
func HashString(s string) uint64 {
	h := fnv.New64a()
	h.Write([]byte(s))

	return h.Sum64()
}

// A Rng is a derived deterministic stream (used where drawing every value from
// the tape would only make tapes long: shuffles, filler values).
type Rng struct{ s uint64 }

// NewRng seeds a derived stream.
func NewRng(seed uint64) *Rng { return &Rng{s: seed} }

// Intn returns a value in [0,n).
func (r *Rng) Intn(n int) int {
	if n <= 1 {
		return 0
	}

	return int(splitmix(&r.s) % uint64(n))
}

// Uint64 returns 64 random bits.
func (r *Rng) Uint64() uint64 { return splitmix(&r.s) }

// Perm returns a permutation of 0..n-1.
func (r *Rng) Perm(n int) []int {
	p := make([]int, n)
	for i := range p {
		p[i] = i
	}

	for i := n - 1; i > 0; i-- {
		j := r.Intn(i + 1)
		p[i], p[j] = p[j], p[i]
	}

	return p
}
