package core

import (
	"sort"
)

// An Engine simulates one kind of world. One engine may decide several
// properties; Run is told which one is being decided.
type Engine interface {
	Name() string
	// Run executes one simulated run, drawing every decision from t. It returns
	// the first unlisted violation, or nil.
	Run(prop string, t *Tape, st *Stats) *Violation
	// Describe returns the evidence metadata for a property.
	Describe(prop string) Description
	// Runs is the number of simulated runs of one batch (all workers together).
	Runs(prop, tier string) int
}

// A Description is the static part of a property's evidence.
type Description struct {
	Rule        string   // how cases are generated, what makes one non-trivial / distinct
	Level       string   // evidence level
	Assumptions []string // what the check assumes or trusts
	Real        []string // components that ran real code
	Stub        []string // components that were stubs / models
	FaultKinds  []string // fault kinds this engine can inject (counters "fault:<kind>")
	Probes      []string // rare-condition probes (counters "probe:<name>") expected to be hit
}

// Stats accumulates what a batch of runs reached.
type Stats struct {
	Runs        int64
	NonTrivial  int64
	Counters    map[string]int64
	States      map[uint64]struct{} // distinct model-state fingerprints
	RunHashes   map[uint64]struct{} // distinct event-log hashes of non-trivial runs
	Known       map[string]int64    // open known findings met, by signature
	KnownMsg    map[string]string
	MOApplied   int64
	MONonIdent  int64
	Steps       int64
	Samples     []Sample
	SetsCapped  bool
	known       map[string]bool
	curNonTriv  bool
	curHitKnown bool
}

// A Sample is one actual run, written out.
type Sample struct {
	Seed   uint64   `json:"seed"`
	Draws  int      `json:"draws"`
	Events int      `json:"events"`
	Trace  []string `json:"trace"`
}

// NewStats returns empty statistics; known lists the signatures of open known
// findings.
func NewStats(known map[string]bool) *Stats {
	return &Stats{
		Counters:  map[string]int64{},
		States:    map[uint64]struct{}{},
		RunHashes: map[uint64]struct{}{},
		Known:     map[string]int64{},
		KnownMsg:  map[string]string{},
		known:     known,
	}
}

// Inc adds one to a counter.
func (s *Stats) Inc(name string) { s.Counters[name]++ }

// Add adds n to a counter.
func (s *Stats) Add(name string, n int64) { s.Counters[name] += n }

// setCap bounds the hash sets a worker keeps (a thorough batch would otherwise
// hold tens of millions of entries); beyond it the distinct counts are lower bounds.
const setCap = 400000

// State records a model-state fingerprint.
func (s *Stats) State(h uint64) {
	if len(s.States) >= setCap {
		s.SetsCapped = true
		return
	}

	s.States[h] = struct{}{}
}

// MarkNonTrivial marks the current run as non-trivial by the engine's rule.
func (s *Stats) MarkNonTrivial() { s.curNonTriv = true }

// MapOrder folds a policy's counters into the batch.
func (s *Stats) MapOrder(m *MapOrder) {
	s.MOApplied += m.Applied
	s.MONonIdent += m.NonIdentity
	s.Counters["s1-policy:"+m.Name()]++
}

// Fail reports an oracle failure. It returns true when the violation is not a
// listed open finding, in which case the engine must return it. For a listed
// one it is counted and the engine ends the run quietly (the state may no longer
// match the model).
func (s *Stats) Fail(v *Violation) bool {
	sig := v.Signature()
	if s.known[sig] {
		s.Known[sig]++
		s.KnownMsg[sig] = v.Message
		s.curHitKnown = true

		return false
	}

	return true
}

// IsKnown reports whether a signature is a listed open finding.
func (s *Stats) IsKnown(sig string) bool { return s.known[sig] }

func (s *Stats) endRun(t *Tape) {
	s.Runs++

	if s.curNonTriv {
		s.NonTrivial++
		if len(s.RunHashes) < setCap {
			s.RunHashes[t.EventHash()] = struct{}{}
		} else {
			s.SetsCapped = true
		}
	}

	s.curNonTriv = false
	s.curHitKnown = false
}

// Merge folds o into s.
func (s *Stats) Merge(o *Stats) {
	s.Runs += o.Runs
	s.NonTrivial += o.NonTrivial
	s.MOApplied += o.MOApplied
	s.MONonIdent += o.MONonIdent
	s.Steps += o.Steps
	s.SetsCapped = s.SetsCapped || o.SetsCapped

	for k, v := range o.Counters {
		s.Counters[k] += v
	}

	for k := range o.States {
		s.States[k] = struct{}{}
	}

	for k := range o.RunHashes {
		s.RunHashes[k] = struct{}{}
	}

	for k, v := range o.Known {
		s.Known[k] += v
		s.KnownMsg[k] = o.KnownMsg[k]
	}

	if len(s.Samples) < 3 {
		s.Samples = append(s.Samples, o.Samples...)
		if len(s.Samples) > 3 {
			s.Samples = s.Samples[:3]
		}
	}
}

// SortedKeys returns the keys of a counter map in sorted order (engines and the
// driver never range over a map to produce output).
func SortedKeys(m map[string]int64) []string {
	ks := make([]string, 0, len(m))
	for k := range m {
		ks = append(ks, k)
	}

	sort.Strings(ks)

	return ks
}
