package core

import (
	"fmt"
	"runtime"
	"strings"
)

// A Violation is one oracle failure of one run.
type Violation struct {
	Property string `json:"property"`
	Clause   string `json:"clause"` // which oracle clause failed
	Site     string `json:"site"`   // site class: innermost package function / operation kind
	Input    string `json:"input"`  // input class tag computed by the engine
	Message  string `json:"message"`
}

// Signature identifies a class of violations: known findings are listed by it
// and shrinking keeps only candidates that end in the same one.
func (v *Violation) Signature() string {
	return v.Property + "|" + v.Clause + "|" + v.Site + "|" + v.Input
}

func (v *Violation) String() string {
	return fmt.Sprintf("%s: %s", v.Signature(), v.Message)
}

const pkgPrefix = "github.com/mfcochauxlaberge/jsonapi."

// A Panic describes a panic raised while library code was on the stack.
type Panic struct {
	Value string
	Func  string // innermost package function on the panicking stack
	Class string // coarse class of the panic value (stable across inputs)
}

// HarnessBug is re-panicked when a panic did not come through library code.
type HarnessBug struct {
	Value interface{}
	Stack string
}

// Call runs f, which calls into the library, and reports a library panic. A
// panic with no library frame on its stack is a bug of the harness and is
// propagated (the worker then dies with exit 2, never a VIOLATION).
func Call(f func()) (p *Panic) {
	defer func() {
		r := recover()
		if r == nil {
			return
		}

		if hb, ok := r.(HarnessBug); ok {
			panic(hb)
		}

		pcs := make([]uintptr, 64)
		n := runtime.Callers(2, pcs)
		frames := runtime.CallersFrames(pcs[:n])
		fn := ""

		var sb strings.Builder

		for {
			fr, more := frames.Next()
			fmt.Fprintf(&sb, "%s\n\t%s:%d\n", fr.Function, fr.File, fr.Line)

			if fn == "" && strings.HasPrefix(fr.Function, pkgPrefix) {
				name := strings.TrimPrefix(fr.Function, pkgPrefix)
				if !strings.HasPrefix(name, "sim") { // simEntries / simYield belong to the harness
					fn = name
				}
			}

			if !more {
				break
			}
		}

		if fn == "" {
			panic(HarnessBug{Value: r, Stack: sb.String()})
		}

		// Generic instantiation suffixes and closure numbers are noise.
		if i := strings.Index(fn, "["); i >= 0 {
			fn = fn[:i]
		}

		val := fmt.Sprint(r)
		p = &Panic{Value: val, Func: fn, Class: panicClass(val)}
	}()

	f()

	return nil
}

func panicClass(v string) string {
	switch {
	case strings.Contains(v, "index out of range"):
		return "index-out-of-range"
	case strings.Contains(v, "slice bounds out of range"):
		return "slice-bounds"
	case strings.Contains(v, "nil pointer dereference"):
		return "nil-deref"
	case strings.Contains(v, "interface conversion"):
		return "interface-conversion"
	case strings.Contains(v, "nil map"):
		return "nil-map-write"
	case strings.Contains(v, "illegal base64"):
		return "illegal-base64"
	case strings.Contains(v, "json: cannot unmarshal"):
		return "json-cannot-unmarshal"
	case strings.Contains(v, "does not exist"):
		return "field-does-not-exist"
	case strings.Contains(v, "got value of type"):
		return "wrong-value-type"
	case strings.Contains(v, "reflect"):
		return "reflect"
	case strings.Contains(v, "key is empty"):
		return "key-is-empty"
	}

	if len(v) > 40 {
		v = v[:40]
	}

	return "other:" + strings.Map(func(r rune) rune {
		if r == '|' || r == '\n' {
			return ' '
		}

		return r
	}, v)
}
