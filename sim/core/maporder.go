package core

import (
	"sync"

	"github.com/mfcochauxlaberge/jsonapi"
)

// Map-order policies of the S1 scheduler.
const (
	MOSorted   = iota // keys in sorted order at every site
	MOReverse         // reverse sorted at every site
	MORotate          // sorted order rotated by a per-execution offset (what small Go maps tend to do)
	MOShuffle         // fresh seeded shuffle at every loop execution
	MOFixed           // one fixed shuffle per (site, n) for the whole run
	MOFlipOne         // sorted everywhere except one site, which is reversed
	MONative          // hook off: the runtime's own order (never used for deciding oracles)
	moPolicies = MONative
)

var moNames = []string{"sorted", "reverse", "rotate", "shuffle", "fixed", "flip-one", "native"}

// A MapOrder decides the iteration order of every instrumented map range.
type MapOrder struct {
	Policy   int
	rng      *Rng
	seed     uint64
	flipSite int
	// statistics
	// mu: the engines are single-threaded, but a tree under test may start
	// goroutines of its own inside a call; the hook must not crash then (what such a
	// tree outputs is judged by the oracles, not here)
	mu          sync.Mutex
	Applied     int64 // loop executions with >= 2 entries
	NonIdentity int64 // of those, executions whose order differed from sorted
	Sites       map[int]int64
}

// DrawMapOrder draws a policy from the tape.
func DrawMapOrder(t *Tape) *MapOrder {
	m := &MapOrder{Policy: t.Draw(moPolicies), Sites: map[int]int64{}}
	m.seed = t.Seed64()
	m.rng = NewRng(m.seed)
	m.flipSite = t.Draw(len(jsonapi.SimSiteNames))

	return m
}

// NewMapOrder builds a specific policy (used for adversarial pairs).
func NewMapOrder(policy int, seed uint64, flipSite int) *MapOrder {
	return &MapOrder{Policy: policy, seed: seed, rng: NewRng(seed), flipSite: flipSite, Sites: map[int]int64{}}
}

// Name describes the policy.
func (m *MapOrder) Name() string { return moNames[m.Policy] }

func reversed(n int) []int {
	p := make([]int, n)
	for i := range p {
		p[i] = n - 1 - i
	}

	return p
}

func (m *MapOrder) hook(site, n int) []int {
	m.mu.Lock()
	defer m.mu.Unlock()

	m.Applied++
	m.Sites[site]++

	var p []int

	switch m.Policy {
	case MOSorted:
		return nil
	case MOReverse:
		p = reversed(n)
	case MORotate:
		r := m.rng.Intn(n)
		if r == 0 {
			return nil
		}

		p = make([]int, n)
		for i := range p {
			p[i] = (i + r) % n
		}
	case MOShuffle:
		p = m.rng.Perm(n)
	case MOFixed:
		p = NewRng(Mix(m.seed, uint64(site)*64+uint64(n))).Perm(n)
	case MOFlipOne:
		if site != m.flipSite {
			return nil
		}

		p = reversed(n)
	}

	for i, v := range p {
		if i != v {
			m.NonIdentity++
			break
		}
	}

	return p
}

// With runs f with the policy installed. Not reentrant across goroutines: every
// engine but E7 is single-threaded, and E7 installs its own hook.
func (m *MapOrder) With(f func()) {
	prev := jsonapi.SimMapOrder

	if m.Policy == MONative {
		jsonapi.SimMapOrder = nil
	} else {
		jsonapi.SimMapOrder = m.hook
	}

	defer func() { jsonapi.SimMapOrder = prev }()

	f()
}

// Install sets the policy until the returned function is called.
func (m *MapOrder) Install() func() {
	prev := jsonapi.SimMapOrder
	if m.Policy == MONative {
		jsonapi.SimMapOrder = nil
	} else {
		jsonapi.SimMapOrder = m.hook
	}

	return func() { jsonapi.SimMapOrder = prev }
}
