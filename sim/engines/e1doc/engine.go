// Package e1doc is engine E1: documents and URLs over a seeded schema are
// marshaled under seeded map-iteration orders and with their order-irrelevant
// parts permuted (C11), and built through histories of Document.Include calls
// and checked by an independent JSON:API structure validator (C03).
package e1doc

import (
	"encoding/json"
	"fmt"
	"sort"
	"strings"

	"github.com/mfcochauxlaberge/jsonapi"

	"verifsim/core"
	"verifsim/world"
)

// Engine is E1.
type Engine struct{}

// Name implements core.Engine.
func (Engine) Name() string { return "E1-doc" }

// Runs implements core.Engine.
func (Engine) Runs(prop, tier string) int {
	quick := map[string]int{"C11": 40000, "C03": 150000}[prop]
	if tier == "thorough" {
		return quick * 40
	}

	return quick
}

// Describe implements core.Engine.
func (Engine) Describe(prop string) core.Description {
	d := core.Description{
		Level: "exploration",
		Real: []string{
			"jsonapi.MarshalDocument / MarshalResource / MarshalCollection, jsonapi.Document.Include, jsonapi.NewURLFromRaw, jsonapi.URL.String",
			"SoftResource and Wrapper (reflect.StructOf struct types); SoftCollection, Resources, WrapperCollection, Identifier(s) as primary data",
			"the package's map-range loops under the seeded map-order scheduler (instrumented scratch copy of /repo's working tree)",
		},
	}

	switch prop {
	case "C11":
		d.Stub = []string{"none: the oracle is byte equality between runs of the real code and snapshot equality of what is read from the inputs"}
		d.Rule = "one run = one seeded schema (2..4 soft and struct-backed types), document (any primary-data kind, 0..5 included resources with distinct IDs, meta, errors, prefix, relationship-data lists) and URL parsed by the real parser; marshaled twice, then as a deep-equal twin with to-many IDs, field-selection names, relationship-data names and the included list permuted, then under adversarial map orders (sorted / reverse / shuffle / one site flipped), with a before/after snapshot of everything read from the resources and the URL; " +
			"non-trivial = the document carries at least one resource with at least one selected field; distinct = distinct event-log hash"
		d.Assumptions = []string{
			"included resources have pairwise distinct IDs (the statement's domain)",
			"the document's own Links map is not part of what the statement protects (MarshalDocument adds the self link to it)",
			"every permutation of a map's iteration order is a legal behaviour of the Go runtime",
		}
		d.Probes = []string{"exotic-names", "twin-permuted-tomany", "twin-permuted-included", "twin-permuted-fields", "adversarial-map-order", "kind-nil", "kind-resource", "kind-softcollection", "kind-resources", "kind-wrappercollection", "kind-identifier", "kind-identifiers", "with-errors", "with-included", "document-and-url-reused-after-edit", "resource-with-copy-on-read-get", "many-included"}
	case "C03":
		d.Stub = []string{"independent JSON:API document-structure validator (written from the JSON:API grammar, not from the library)"}
		d.Rule = "one run = one seeded schema (names and IDs that JSON must escape included), a document whose primary data is a resource / SoftCollection / WrapperCollection / Resources, a history of 0..12 Document.Include calls (repeats, primary-data resources, same ID under another type), marshaled under a seeded map order and validated: JSON object, jsonapi member, self link, data xor errors, included only with data, resource objects (type, id, self link = prefix+type+id), relationship objects (self/related links, data shape), no type/ID pair twice across primary data and included; " +
			"non-trivial = at least one Include call and one resource object in the output; distinct = distinct event-log hash"
		d.Assumptions = []string{
			"IDs are non-empty; identifiers as primary data do not count as duplicates of an included resource",
			"the uniqueness clause is checked only when included resources were added through Include (as the statement says)",
		}
		d.Probes = []string{"primary-resource-that-json-refuses", "same-resources-under-another-prefix", "include-repeat", "include-primary-resource", "include-same-id-other-type", "include-on-resources-collection", "include-on-softcollection", "include-on-wrappercollection", "include-on-single-resource", "doc-with-errors", "exotic-names", "primary-member-replaced-between-includes", "earlier-payload-revalidated", "resource-without-id"}
	}

	d.Rule += "; documents may carry top-level links of their own next to the self link; in a quarter of the runs the schema is reached through a longer edit history (scaffold types added between the real ones and removed again, an attribute added after its type, temporary fields added and removed) with the same final content"
	d.Probes = append(d.Probes, "schema-built-through-edit-history")

	return d
}

func viol(prop, clause, site, input, format string, a ...interface{}) *core.Violation {
	return &core.Violation{Property: prop, Clause: clause, Site: site, Input: input, Message: fmt.Sprintf(format, a...)}
}

// Run implements core.Engine.
func (Engine) Run(prop string, t *core.Tape, st *core.Stats) *core.Violation {
	var v *core.Violation

	switch prop {
	case "C11":
		v = runC11(t, st)
	case "C03":
		v = runC03(t, st)
	}

	if v != nil && !st.Fail(v) {
		return nil
	}

	return v
}

// ---------------------------------------------------------------------------------------------
// snapshots of what can later be read from the inputs

func resSnap(r jsonapi.Resource) string {
	// "other than the order of to-many IDs": the IDs themselves, repetitions included, stay
	s := world.Observe(r).StringBag()

	if mh, ok := r.(jsonapi.MetaHolder); ok {
		b, _ := json.Marshal(mh.Meta())
		s += " meta=" + string(b)
	}

	return s
}

func sortedCopy(s []string) []string {
	c := append([]string{}, s...)
	sort.Strings(c)

	return c
}

func urlSnap(u *jsonapi.URL) string {
	var sb strings.Builder

	fmt.Fprintf(&sb, "fragments=%q route=%q col=%v type=%q id=%q relkind=%q rel=%+v btf=%+v", u.Fragments, u.Route, u.IsCol, u.ResType, u.ResID, u.RelKind, u.Rel, u.BelongsToFilter)

	p := u.Params
	types := make([]string, 0, len(p.Fields))

	for k := range p.Fields {
		types = append(types, k)
	}

	sort.Strings(types)

	for _, k := range types {
		fmt.Fprintf(&sb, " fields[%q]=%q", k, sortedCopy(p.Fields[k]))
	}

	rd := make([]string, 0, len(p.RelData))
	for k := range p.RelData {
		rd = append(rd, k)
	}

	sort.Strings(rd)

	for _, k := range rd {
		fmt.Fprintf(&sb, " reldata[%q]=%q", k, sortedCopy(p.RelData[k]))
	}

	fb, _ := json.Marshal(p.Filter)
	fmt.Fprintf(&sb, " filterlabel=%q filter=%s sort=%q page=%v include=%v", p.FilterLabel, fb, p.SortingRules, p.Page, p.Include)

	return sb.String()
}

func docSnap(d *jsonapi.Document) string {
	var sb strings.Builder

	switch x := d.Data.(type) {
	case nil:
		sb.WriteString("data=nil")
	case jsonapi.Resource:
		sb.WriteString("data=res " + resSnap(x))
	case jsonapi.Collection:
		fmt.Fprintf(&sb, "data=col[%d]", x.Len())

		for i := 0; i < x.Len(); i++ {
			sb.WriteString("\n  " + resSnap(x.At(i)))
		}
	default:
		fmt.Fprintf(&sb, "data=%#v", x)
	}

	incl := make([]string, len(d.Included))
	for i, r := range d.Included {
		incl[i] = resSnap(r)
	}

	sort.Strings(incl) // the included list is exempt as a list: compared as a set

	for _, s := range incl {
		sb.WriteString("\n  incl " + s)
	}

	rd := make([]string, 0, len(d.RelData))
	for k := range d.RelData {
		rd = append(rd, k)
	}

	sort.Strings(rd)

	for _, k := range rd {
		fmt.Fprintf(&sb, "\n  reldata[%q]=%q", k, sortedCopy(d.RelData[k]))
	}

	mb, _ := json.Marshal(d.Meta)
	fmt.Fprintf(&sb, "\n  meta=%s prepath=%q errors=%d", mb, d.PrePath, len(d.Errors))

	return sb.String()
}

// ---------------------------------------------------------------------------------------------
// C11

func schemaOpts(names world.NameStyle) world.SchemaOptions {
	return world.SchemaOptions{MinTypes: 2, MaxTypes: 4, MaxAttrs: 5, MaxRels: 3, Names: names, AllowStruct: true, ForceStruct: -1, TwoWay: true}
}

func runC11(t *core.Tape, st *core.Stats) *core.Violation {
	const P = "C11"

	names := world.NamesPlain
	if t.Bool(1, 4) {
		names = world.NamesExotic // names that JSON and URLs must escape
		st.Inc("probe:exotic-names")
	}

	spec := world.DrawSchema(t, schemaOpts(names))

	var (
		schema *jsonapi.Schema
		err    error
	)

	viaHistory := false

	defer func() {
		if viaHistory {
			st.Inc("probe:schema-built-through-edit-history")
		}
	}()

	if p := core.Call(func() { schema, viaHistory, err = spec.BuildSchemaAnyHow(t) }); p != nil {
		return viol(P, "no-panic", p.Func, "build-schema:"+p.Class, "building the schema panicked: %s", p.Value)
	}

	if err != nil {
		st.Inc("probe:schema-refused")
		t.Logf("schema refused: %v", err)

		return nil
	}

	maxIncl := t.Bound(5, 12)
	if t.Bool(1, 80) {
		maxIncl = 90 // a long included list now and then (batching / parallel paths)
		st.Inc("probe:many-included")
	}

	ds := world.DrawDoc(t, spec, world.DocOptions{MaxPrimary: 6, MaxIncluded: maxIncl, MinIncluded: maxIncl / 2 * (maxIncl / 90), DistinctIncl: true, Errors: true})
	t.Logf("%s", ds.Describe())
	st.Inc("probe:kind-" + ds.Kind)

	if len(ds.Errors) > 0 {
		st.Inc("probe:with-errors")
	}

	if len(ds.Included) > 0 {
		st.Inc("probe:with-included")
	}

	type built struct {
		doc *jsonapi.Document
		url *jsonapi.URL
	}

	cor := t.Bool(1, 4)
	if cor {
		st.Inc("probe:resource-with-copy-on-read-get")
	}

	build := func(rng *core.Rng, mo *core.MapOrder) (*built, *core.Violation) {
		var (
			b   built
			err error
		)

		p := core.Call(func() { mo.With(func() { b.doc, b.url, err = ds.Materialise(schema, world.MatOptions{Rng: rng, CopyOnRead: cor}) }) })
		st.MapOrder(mo)

		if p != nil {
			return nil, viol(P, "no-panic", p.Func, "materialise:"+p.Class, "building the document panicked: %s", p.Value)
		}

		if err != nil {
			st.Inc("probe:document-refused")
			t.Logf("document refused: %v", err)

			return nil, nil
		}

		return &b, nil
	}

	buildSpec := func(d *world.DocSpec) (*built, *core.Violation) {
		var (
			b   built
			err error
		)

		mo := core.DrawMapOrder(t)
		p := core.Call(func() { mo.With(func() { b.doc, b.url, err = d.Materialise(schema, world.MatOptions{CopyOnRead: cor}) }) })
		st.MapOrder(mo)

		if p != nil {
			return nil, viol(P, "no-panic", p.Func, "materialise:"+p.Class, "building the document panicked: %s", p.Value)
		}

		if err != nil {
			st.Inc("probe:document-refused")
			return nil, nil
		}

		return &b, nil
	}

	marshal := func(b *built, mo *core.MapOrder, what string) ([]byte, *core.Violation) {
		var (
			out []byte
			err error
		)

		p := core.Call(func() { mo.With(func() { out, err = jsonapi.MarshalDocument(b.doc, b.url) }) })
		st.MapOrder(mo)
		st.Inc("op:MarshalDocument")
		st.Steps++

		if p != nil {
			return nil, viol(P, "no-panic", p.Func, "marshal-"+ds.Kind+":"+p.Class, "MarshalDocument (%s) panicked: %s", what, p.Value)
		}

		if err != nil {
			t.Logf("marshal (%s) -> error %v", what, err)
			return nil, nil
		}

		t.Logf("marshal (%s, map order %s) -> %d bytes", what, mo.Name(), len(out))

		return out, nil
	}

	b0, v := build(nil, core.DrawMapOrder(t))
	if v != nil || b0 == nil {
		return v
	}

	before := docSnap(b0.doc) + "\n" + urlSnap(b0.url)

	// 1. marshal, marshal again
	first, v := marshal(b0, core.DrawMapOrder(t), "first")
	if v != nil || first == nil {
		return v
	}

	firstCopy := string(first)

	again, v := marshal(b0, core.DrawMapOrder(t), "again")
	if v != nil {
		return v
	}

	if string(again) != string(first) {
		return viol(P, "repeat-identical", "MarshalDocument", ds.Kind, "marshaling the same document twice gave different bytes\n    1st: %s\n    2nd: %s", first, again)
	}

	// 4. nothing that is later read has changed (order-exempt parts compared as sets)
	var after string

	if p := core.Call(func() { after = docSnap(b0.doc) + "\n" + urlSnap(b0.url) }); p != nil {
		return viol(P, "no-panic", p.Func, "read-after-marshal:"+p.Class, "reading the document after marshaling panicked: %s", p.Value)
	}

	if after != before {
		return viol(P, "inputs-unchanged", "MarshalDocument", ds.Kind, "marshaling changed what is read from the document or the URL\n    before: %s\n    after:  %s", before, after)
	}

	// 2. deep-equal twin with the order-irrelevant parts permuted
	rng := core.NewRng(t.Seed64())

	tw, v := build(rng, core.DrawMapOrder(t))
	if v != nil || tw == nil {
		return v
	}

	st.Inc("probe:twin-permuted-tomany")
	st.Inc("probe:twin-permuted-fields")

	if len(ds.Included) > 1 {
		st.Inc("probe:twin-permuted-included")
	}

	twin, v := marshal(tw, core.DrawMapOrder(t), "permuted twin")
	if v != nil {
		return v
	}

	if string(twin) != string(first) {
		return viol(P, "order-irrelevant-parts", "MarshalDocument", ds.Kind+":"+diffWhere(first, twin), "a deep-equal document with permuted to-many IDs / field names / relationship-data names / included list marshals differently\n    original: %s\n    twin:     %s", first, twin)
	}

	// 3. adversarial map orders on the same input
	for i, mo := range []*core.MapOrder{
		core.NewMapOrder(core.MOSorted, 1, 0), core.NewMapOrder(core.MOReverse, 1, 0),
		core.NewMapOrder(core.MOShuffle, t.Seed64(), 0), core.NewMapOrder(core.MOFlipOne, 1, t.Draw(len(jsonapi.SimSiteNames))),
	} {
		out, v := marshal(b0, mo, fmt.Sprintf("adversarial %d", i))
		if v != nil {
			return v
		}

		st.Inc("probe:adversarial-map-order")

		if string(out) != string(first) {
			return viol(P, "map-order-independent", "MarshalDocument", ds.Kind+":"+diffWhere(first, out), "output depends on map iteration order (%s)\n    reference: %s\n    this run:  %s", mo.Name(), first, out)
		}
	}

	// a fresh build under another map order (parser side of S1)
	b2, v := build(nil, core.NewMapOrder(core.MOReverse, 1, 0))
	if v != nil || b2 == nil {
		return v
	}

	// the URL that went through four marshals prints like a freshly parsed one
	var usedText, freshText string

	if p := core.Call(func() { usedText, freshText = b0.url.String(), b2.url.String() }); p != nil {
		return viol(P, "no-panic", p.Func, "url-string:"+p.Class, "URL.String panicked: %s", p.Value)
	}

	if usedText != freshText {
		return viol(P, "inputs-unchanged", "URL.String", ds.Kind, "after marshaling, the URL prints as %q; a freshly parsed one as %q", usedText, freshText)
	}

	out, v := marshal(b2, core.NewMapOrder(core.MOSorted, 1, 0), "rebuilt under reverse map order")
	if v != nil {
		return v
	}

	if string(out) != string(first) {
		return viol(P, "map-order-independent", "NewURLFromRaw+MarshalDocument", ds.Kind+":"+diffWhere(first, out), "an equal document built and parsed under another map order marshals differently\n    reference: %s\n    this run:  %s", first, out)
	}

	if strings.Contains(string(first), `"attributes"`) || strings.Contains(string(first), `"relationships"`) {
		st.MarkNonTrivial()
	}

	st.State(core.HashString(string(first)))

	// 5. "depends only on content": the same Document and URL values, edited in place
	// (another included list of the same length, a narrower field selection, another
	// page number), must marshal like freshly built ones with that content; and the
	// bytes returned by the first call must still be what they were.
	if string(first) != firstCopy {
		return viol(P, "returned-bytes-stable", "MarshalDocument", ds.Kind, "the bytes returned by the first MarshalDocument call changed after later calls\n    were: %s\n    are:  %s", firstCopy, first)
	}

	if t.Bool(1, 2) {
		ds2 := *ds
		edits := ""

		if len(ds.Included) > 0 && t.Bool(2, 3) {
			taken := map[string]bool{}
			ds2.Included = nil

			for range ds.Included {
				ts := spec.Types[t.Draw(len(spec.Types))]
				id := fmt.Sprintf("n%d", t.Draw(50))

				for taken[id] {
					id += "x"
				}

				taken[id] = true
				ds2.Included = append(ds2.Included, world.DrawResSpec(t, ts, id))
			}

			edits += " included replaced by as many other resources;"
		}

		ds2.FieldSel = map[string][]string{}

		for k, v := range ds.FieldSel {
			ds2.FieldSel[k] = v
		}

		narrowed := ""

		for _, k := range sortedStrKeys(ds.FieldSel) {
			if len(ds.FieldSel[k]) >= 2 && t.Bool(1, 2) {
				ds2.FieldSel[k] = ds.FieldSel[k][:len(ds.FieldSel[k])-1]
				narrowed = k
				edits += fmt.Sprintf(" fields[%s] narrowed;", k)

				break
			}
		}

		if edits != "" {
			st.Inc("probe:document-and-url-reused-after-edit")

			fresh, v := buildSpec(&ds2)
			if v != nil || fresh == nil {
				return v
			}

			// apply the same edits to the values that have been marshaled already
			if p := core.Call(func() {
				// the URL is printed once more right before it is edited: nothing that
				// remembers the last text printed may outlive the edit
				_ = b0.url.String()
				b0.doc.Included = fresh2Included(&ds2, schema, cor)

				if narrowed != "" {
					want := map[string]bool{}
					for _, n := range ds2.FieldSel[narrowed] {
						want[n] = true
					}

					var kept []string

					for _, n := range b0.url.Params.Fields[narrowed] {
						if want[n] {
							kept = append(kept, n)
						}
					}

					b0.url.Params.Fields[narrowed] = kept
				}
			}); p != nil {
				return viol(P, "no-panic", p.Func, "edit-in-place:"+p.Class, "editing the document in place panicked: %s", p.Value)
			}

			t.Logf("edited in place:%s", edits)

			reused, v := marshal(b0, core.DrawMapOrder(t), "same values edited in place")
			if v != nil {
				return v
			}

			want, v := marshal(fresh, core.DrawMapOrder(t), "freshly built with the edited content")
			if v != nil {
				return v
			}

			if reused != nil && want != nil && string(reused) != string(want) {
				return viol(P, "depends-only-on-content", "MarshalDocument", ds.Kind+":"+diffWhere(want, reused), "a document and URL that were marshaled before and then edited in place (%s) marshal differently from freshly built ones with the same content\n    fresh:  %s\n    reused: %s", edits, want, reused)
			}
		}
	}

	return nil
}

func sortedStrKeys(m map[string][]string) []string {
	ks := make([]string, 0, len(m))
	for k := range m {
		ks = append(ks, k)
	}

	sort.Strings(ks)

	return ks
}

// fresh2Included materialises the included list of a spec.
func fresh2Included(ds *world.DocSpec, schema *jsonapi.Schema, cor bool) []jsonapi.Resource {
	var out []jsonapi.Resource

	for _, rs := range ds.Included {
		var r jsonapi.Resource = rs.Clone().Materialise(schema)
		if cor {
			r = world.CopyOnRead{Resource: r}
		}

		out = append(out, r)
	}

	return out
}

// diffWhere names the top-level member in which two outputs first differ.
func diffWhere(a, b []byte) string {
	var ma, mb map[string]json.RawMessage

	if json.Unmarshal(a, &ma) != nil || json.Unmarshal(b, &mb) != nil {
		return "not-json"
	}

	keys := make([]string, 0, len(ma))
	for k := range ma {
		keys = append(keys, k)
	}

	for k := range mb {
		if _, ok := ma[k]; !ok {
			keys = append(keys, k)
		}
	}

	sort.Strings(keys)

	for _, k := range keys {
		if string(ma[k]) != string(mb[k]) {
			return k
		}
	}

	return "member-order"
}
