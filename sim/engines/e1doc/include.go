package e1doc

import (
	"fmt"
	"math"

	"github.com/mfcochauxlaberge/jsonapi"

	"verifsim/core"
	"verifsim/model"
	"verifsim/world"
)

func runC03(t *core.Tape, st *core.Stats) *core.Violation {
	const P = "C03"

	names := world.NamesPlain
	if t.Bool(1, 3) {
		names = world.NamesExotic
		st.Inc("probe:exotic-names")
	}

	spec := world.DrawSchema(t, schemaOpts(names))

	var (
		schema *jsonapi.Schema
		err    error
	)

	viaHistory := false

	defer func() {
		if viaHistory {
			st.Inc("probe:schema-built-through-edit-history")
		}
	}()

	if p := core.Call(func() { schema, viaHistory, err = spec.BuildSchemaAnyHow(t) }); p != nil {
		return viol(P, "no-panic", p.Func, "build-schema:"+p.Class, "building the schema panicked: %s", p.Value)
	}

	if err != nil {
		st.Inc("probe:schema-refused")
		return nil
	}

	kinds := []string{"resource", "softcollection", "wrappercollection", "resources", "resources", "nil", "identifier", "identifiers"}
	ds := world.DrawDoc(t, spec, world.DocOptions{Kinds: kinds, MaxPrimary: 5, MaxIncluded: 0, Errors: true, ExoticIDs: names == world.NamesExotic})
	t.Logf("%s", ds.Describe())

	var (
		doc *jsonapi.Document
		u   *jsonapi.URL
	)

	if p := core.Call(func() { doc, u, err = ds.Materialise(schema, world.MatOptions{}) }); p != nil {
		return viol(P, "no-panic", p.Func, "materialise:"+p.Class, "building the document panicked: %s", p.Value)
	}

	if err != nil {
		st.Inc("probe:document-refused")
		t.Logf("document refused: %v", err)

		return nil
	}

	if len(ds.Errors) > 0 {
		st.Inc("probe:doc-with-errors")
	}

	// Include history
	var pool []*world.ResSpec // everything included or tried so far

	ncalls := 0
	maxOps := t.Bound(12, 40)
	stop := t.Range(2, maxOps)

	for i := 0; i < maxOps && t.More(stop); i++ {
		var (
			rs   *world.ResSpec
			what string
		)

		// now and then the primary data changes between two Include calls without
		// changing its size: one member of the collection is replaced by another
		// resource (so that whatever Include remembers about the primary data is stale)
		if ncalls > 0 && len(ds.Primary) > 0 && t.Bool(1, 6) {
			k := t.Draw(len(ds.Primary))
			old := ds.Primary[k]
			repl := world.DrawResSpec(t, old.Type, fmt.Sprintf("swapped%d", i))
			swapped := false

			if p := core.Call(func() {
				switch col := doc.Data.(type) {
				case *jsonapi.Resources:
					(*col)[k] = repl.Clone().Materialise(schema)
					swapped = true
				case *jsonapi.SoftCollection:
					// remove + add keeps the size; the new member goes last
					col.Remove(old.ID)
					col.Add(repl.Clone().Materialise(schema))
					swapped = true
				case jsonapi.Resource:
					doc.Data = repl.Clone().Materialise(schema)
					swapped = true
				}
			}); p != nil {
				return viol(P, "no-panic", p.Func, "swap-primary:"+p.Class, "replacing a primary resource panicked: %s", p.Value)
			}

			if swapped {
				if _, isSoft := doc.Data.(*jsonapi.SoftCollection); isSoft {
					ds.Primary = append(append(append([]*world.ResSpec{}, ds.Primary[:k]...), ds.Primary[k+1:]...), repl)
				} else {
					ds.Primary = append([]*world.ResSpec{}, ds.Primary...)
					ds.Primary[k] = repl
				}

				t.Logf("primary data: %q/%q replaced by %q/%q", old.Type.Name, old.ID, repl.Type.Name, repl.ID)
				st.Inc("probe:primary-member-replaced-between-includes")
			}
		}

		switch c := t.Draw(6); {
		case c == 0 && len(pool) > 0: // a repeat (an equal resource, freshly built)
			rs = pool[t.Draw(len(pool))]
			what = "repeat"

			st.Inc("probe:include-repeat")
		case c <= 2 && len(ds.Primary) > 0: // a primary-data resource
			rs = ds.Primary[t.Draw(len(ds.Primary))]
			what = "primary-data resource"

			st.Inc("probe:include-primary-resource")
		case c == 3 && len(pool)+len(ds.Primary) > 0: // same ID under another type
			all := append(append([]*world.ResSpec{}, pool...), ds.Primary...)
			src := all[t.Draw(len(all))]
			ts := spec.Types[t.Draw(len(spec.Types))]
			rs = world.DrawResSpec(t, ts, src.ID)
			what = "same ID under a (maybe) different type"

			st.Inc("probe:include-same-id-other-type")
		default:
			ts := spec.Types[t.Draw(len(spec.Types))]
			id := world.PlainIDs[t.Draw(len(world.PlainIDs))]

			if names == world.NamesExotic {
				id = world.DrawID(t)
			}

			if t.Bool(1, 12) {
				id = "" // a resource that has no ID yet
				st.Inc("probe:resource-without-id")
			}

			rs = world.DrawResSpec(t, ts, id)
			what = "new"
		}

		pool = append(pool, rs)
		t.Logf("Include(%s: %q/%q)", what, rs.Type.Name, rs.ID)
		st.Inc("op:Document.Include")
		st.Steps++

		if p := core.Call(func() { doc.Include(rs.Clone().Materialise(schema)) }); p != nil {
			return viol(P, "no-panic", p.Func, "include-on-"+ds.Kind+":"+p.Class, "Include(%s %q/%q) panicked: %s", what, rs.Type.Name, rs.ID, p.Value)
		}

		ncalls++
	}

	if ncalls > 0 {
		switch ds.Kind {
		case "resources":
			st.Inc("probe:include-on-resources-collection")
		case "softcollection":
			st.Inc("probe:include-on-softcollection")
		case "wrappercollection":
			st.Inc("probe:include-on-wrappercollection")
		case "resource":
			st.Inc("probe:include-on-single-resource")
		}
	}

	// A primary resource that encoding/json refuses (a NaN in its meta): whatever the
	// marshaler makes of it, the document it returns has to be well formed.
	if res, ok := doc.Data.(jsonapi.Resource); ok && ds.Kind == "resource" && t.Bool(1, 10) {
		if mh, ok := res.(jsonapi.MetaHolder); ok {
			core.Call(func() { mh.SetMeta(jsonapi.Meta{"ratio": math.NaN()}) })
			st.Inc("probe:primary-resource-that-json-refuses")
			t.Logf("the primary resource gets meta {ratio: NaN}")
		}
	}

	var out []byte

	mo := core.DrawMapOrder(t)
	p := core.Call(func() { mo.With(func() { out, err = jsonapi.MarshalDocument(doc, u) }) })
	st.MapOrder(mo)
	st.Inc("op:MarshalDocument")

	if p != nil {
		return viol(P, "no-panic", p.Func, "marshal-"+ds.Kind+":"+p.Class, "MarshalDocument panicked: %s", p.Value)
	}

	if err != nil {
		// "a successful marshal returns ...": a refusal is not judged
		st.Inc("probe:marshal-refused")
		t.Logf("marshal -> error %v", err)

		return nil
	}

	t.Logf("marshal -> %s", out)

	primaryRes := ds.Kind != "identifier" && ds.Kind != "identifiers"

	facts, clause, msg := model.ValidateDocument(out, ds.PrePath, primaryRes)
	if clause != "" {
		return viol(P, clause, "MarshalDocument", ds.Kind, "%s\n    output: %s", msg, out)
	}

	if len(ds.Errors) > 0 && facts.HasData {
		return viol(P, "data-xor-errors", "MarshalDocument", ds.Kind, "a document carrying errors was marshaled with data\n    output: %s", out)
	}

	if dup := facts.Duplicate(); dup != nil && primaryRes {
		return viol(P, "include-no-duplicates", "Document.Include", "primary-"+ds.Kind, "%q/%q appears twice across primary data and included after %d Include calls\n    output: %s", dup[0], dup[1], ncalls, out)
	}

	if ncalls >= 1 && facts.Resources >= 1 {
		st.MarkNonTrivial()
	}

	// The bytes a successful marshal returned stay what they were, whatever is
	// marshaled afterwards from the same Document value.
	if t.Bool(1, 3) {
		kept := string(out)

		var second []byte

		if p := core.Call(func() {
			doc.Errors = append(doc.Errors, jsonapi.NewErrNotFound())
			second, _ = jsonapi.MarshalDocument(doc, u)
		}); p != nil {
			return viol(P, "no-panic", p.Func, "marshal-again:"+p.Class, "the second MarshalDocument panicked: %s", p.Value)
		}

		st.Inc("probe:earlier-payload-revalidated")

		if string(out) != kept {
			return viol(P, "returned-bytes-stable", "MarshalDocument", ds.Kind, "the payload returned by MarshalDocument changed when the same document was marshaled again\n    was: %s\n    is:  %s", kept, out)
		}

		if second != nil {
			if _, clause, msg := model.ValidateDocument(second, ds.PrePath, primaryRes); clause != "" {
				return viol(P, clause, "MarshalDocument", ds.Kind+":errors-added", "%s\n    output: %s", msg, second)
			}
		}
	}

	st.State(core.HashString(fmt.Sprint(facts.PrimaryObjs, facts.Included, facts.HasErrors)))

	// The same resources are served again under another path prefix (a second mount
	// point, another API version): every link is made of *that* document's prefix.
	if t.Bool(1, 3) {
		other := []string{"https://other.example/v2", "/x", "", "/api/v9/"}[t.Draw(4)]
		if other == ds.PrePath {
			other = "/y"
		}

		var again []byte

		doc.Errors = nil
		if len(ds.Errors) > 0 {
			doc.Errors = append([]jsonapi.Error(nil), ds.Errors...)
		}

		doc.PrePath = other

		mo3 := core.DrawMapOrder(t)
		if p := core.Call(func() { mo3.With(func() { again, err = jsonapi.MarshalDocument(doc, u) }) }); p != nil {
			return viol(P, "no-panic", p.Func, "marshal-other-prefix:"+p.Class, "MarshalDocument under another prefix panicked: %s", p.Value)
		}

		st.Inc("probe:same-resources-under-another-prefix")

		if err == nil {
			t.Logf("marshal under prefix %q -> %s", other, again)

			if _, clause, msg := model.ValidateDocument(again, other, primaryRes); clause != "" {
				return viol(P, clause, "MarshalDocument", ds.Kind+":second-prefix", "the same resources marshaled under prefix %q (after %q): %s\n    output: %s", other, ds.PrePath, msg, again)
			}
		}
	}

	return nil
}
