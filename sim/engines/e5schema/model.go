// Package e5schema is engine E5: one jsonapi.Schema edited by a seeded history
// of calls, compared step by step with a small reference model. It decides
// C14 (edit histories), C15 (Check on every reached state) and C16 (canonical
// representative of two-way relationships; Rels() independent of map order and
// of build order).
package e5schema

import (
	"fmt"
	"sort"
	"strings"

	"github.com/mfcochauxlaberge/jsonapi"
)

// mType / mSchema: the reference model. Plain data, trivial insides.
type mType struct {
	Name  string
	Attrs map[string]jsonapi.Attr
	Rels  map[string]jsonapi.Rel
}

type mSchema struct {
	Types []*mType
}

func (m *mSchema) find(name string) *mType {
	for _, t := range m.Types {
		if t.Name == name {
			return t
		}
	}

	return nil
}

func (m *mSchema) remove(name string) {
	for i, t := range m.Types {
		if t.Name == name {
			m.Types = append(m.Types[:i:i], m.Types[i+1:]...)
			return
		}
	}
}

func sortedAttrKeys(m map[string]jsonapi.Attr) []string {
	ks := make([]string, 0, len(m))
	for k := range m {
		ks = append(ks, k)
	}

	sort.Strings(ks)

	return ks
}

func sortedRelKeys(m map[string]jsonapi.Rel) []string {
	ks := make([]string, 0, len(m))
	for k := range m {
		ks = append(ks, k)
	}

	sort.Strings(ks)

	return ks
}

func relText(r jsonapi.Rel) string {
	return fmt.Sprintf("%q.%q(one=%v)->%q.%q(one=%v)", r.FromType, r.FromName, r.ToOne, r.ToType, r.ToName, r.FromOne)
}

func typeText(name string, attrs map[string]jsonapi.Attr, rels map[string]jsonapi.Rel) string {
	var sb strings.Builder

	fmt.Fprintf(&sb, "type %q {", name)

	for _, k := range sortedAttrKeys(attrs) {
		a := attrs[k]
		fmt.Fprintf(&sb, " attr[%q]=%q:%d:%v", k, a.Name, a.Type, a.Nullable)
	}

	for _, k := range sortedRelKeys(rels) {
		fmt.Fprintf(&sb, " rel[%q]=%s", k, relText(rels[k]))
	}

	sb.WriteString(" }")

	return sb.String()
}

// content renders the observable content of the real schema (order of types,
// names, attribute and relationship definitions). A nil and an empty map read
// the same, as they do through the API.
func content(s *jsonapi.Schema) string {
	parts := make([]string, len(s.Types))
	for i := range s.Types {
		parts[i] = typeText(s.Types[i].Name, s.Types[i].Attrs, s.Types[i].Rels)
	}

	return strings.Join(parts, "\n")
}

// contentExact is content plus the nil-ness of every map: "exactly as it was"
// for edits that must change nothing (Type.Equal / reflect.DeepEqual see the
// difference between a nil and an empty map).
func contentExact(s *jsonapi.Schema) string {
	var sb strings.Builder

	sb.WriteString(content(s))

	for i := range s.Types {
		fmt.Fprintf(&sb, " [%d attrs-nil=%v rels-nil=%v]", i, s.Types[i].Attrs == nil, s.Types[i].Rels == nil)
	}

	return sb.String()
}

func (m *mSchema) content() string {
	parts := make([]string, len(m.Types))
	for i, t := range m.Types {
		parts[i] = typeText(t.Name, t.Attrs, t.Rels)
	}

	return strings.Join(parts, "\n")
}

// resync rebuilds the model from the real schema. Used only where the property
// does not pin the outcome down (see engine.go), never to hide a mismatch.
func (m *mSchema) resync(s *jsonapi.Schema) {
	m.Types = m.Types[:0]

	for i := range s.Types {
		t := &mType{Name: s.Types[i].Name, Attrs: map[string]jsonapi.Attr{}, Rels: map[string]jsonapi.Rel{}}
		for _, k := range sortedAttrKeys(s.Types[i].Attrs) {
			t.Attrs[k] = s.Types[i].Attrs[k]
		}

		for _, k := range sortedRelKeys(s.Types[i].Rels) {
			t.Rels[k] = s.Types[i].Rels[k]
		}

		m.Types = append(m.Types, t)
	}
}

// validKind: the attribute kinds are the package's exported constants. (Asking
// GetAttrTypeString instead would let a defect in that very function vouch for itself.)
func validKind(k int) bool {
	switch k {
	case jsonapi.AttrTypeString, jsonapi.AttrTypeInt, jsonapi.AttrTypeInt8, jsonapi.AttrTypeInt16, jsonapi.AttrTypeInt32,
		jsonapi.AttrTypeInt64, jsonapi.AttrTypeUint, jsonapi.AttrTypeUint8, jsonapi.AttrTypeUint16, jsonapi.AttrTypeUint32,
		jsonapi.AttrTypeUint64, jsonapi.AttrTypeBool, jsonapi.AttrTypeTime, jsonapi.AttrTypeBytes:
		return true
	}

	return false
}

// invariants checks clause (d) of C14 on the real schema.
func invariants(s *jsonapi.Schema) string {
	seen := map[string]bool{}

	for i := range s.Types {
		t := &s.Types[i]

		if t.Name == "" {
			return fmt.Sprintf("type #%d has an empty name", i)
		}

		if seen[t.Name] {
			return fmt.Sprintf("type name %q occurs twice", t.Name)
		}

		seen[t.Name] = true

		for _, k := range sortedAttrKeys(t.Attrs) {
			a := t.Attrs[k]

			switch {
			case a.Name == "":
				return fmt.Sprintf("type %q has an attribute with an empty name", t.Name)
			case a.Name != k:
				return fmt.Sprintf("type %q stores attribute %q under key %q", t.Name, a.Name, k)
			case !validKind(a.Type):
				return fmt.Sprintf("attribute %q of type %q has invalid kind %d", a.Name, t.Name, a.Type)
			}
		}

		for _, k := range sortedRelKeys(t.Rels) {
			r := t.Rels[k]

			switch {
			case r.FromName == "":
				return fmt.Sprintf("type %q has a relationship with an empty name", t.Name)
			case r.FromName != k:
				return fmt.Sprintf("type %q stores relationship %q under key %q", t.Name, r.FromName, k)
			case r.ToType == "":
				return fmt.Sprintf("relationship %q of type %q has an empty target type", r.FromName, t.Name)
			}
		}
	}

	return ""
}

// offending counts the relationships C15 says Check must report.
//   strict: target type missing, or (inverse named and (FromType != owner or no
//           relationship of the target type with FromName=ToName and ToName=FromName)).
//   loose:  additionally counts a reciprocal whose ToType is not the owner (the
//           "mis-typed inverse"), which the statement's wording does not force.
func offending(m *mSchema) (strict, loose int) {
	for _, t := range m.Types {
		for _, k := range sortedRelKeys(t.Rels) {
			r := t.Rels[k]
			target := m.find(r.ToType)
			bad, badLoose := false, false

			if target == nil {
				bad = true
			}

			if r.ToName != "" {
				if r.FromType != t.Name {
					bad = true
				} else {
					found, foundTyped := false, false

					if target != nil {
						for _, ik := range sortedRelKeys(target.Rels) {
							ir := target.Rels[ik]
							if ir.FromName == r.ToName && ir.ToName == r.FromName {
								found = true

								if ir.ToType == t.Name && ir.FromType == target.Name {
									foundTyped = true
								}
							}
						}
					}

					if !found {
						bad = true
					}

					if !foundTyped {
						badLoose = true
					}
				}
			}

			if bad {
				strict++
			}

			if bad || badLoose {
				loose++
			}
		}
	}

	return strict, loose
}
