package e5schema

import (
	"fmt"

	"github.com/mfcochauxlaberge/jsonapi"

	"verifsim/core"
)

// Engine is E5.
type Engine struct{}

// Name implements core.Engine.
func (Engine) Name() string { return "E5-schema" }

// Runs implements core.Engine.
func (Engine) Runs(prop, tier string) int {
	quick := map[string]int{"C14": 320000, "C15": 240000, "C16": 640000}[prop]
	if tier == "thorough" {
		return quick * 40
	}

	return quick
}

// Describe implements core.Engine.
func (Engine) Describe(prop string) core.Description {
	d := core.Description{
		Level: "exploration",
		Real: []string{
			"jsonapi.Schema: AddType RemoveType AddAttr RemoveAttr AddRel RemoveRel AddTwoWayRel HasType GetType Check Rels",
			"jsonapi.Type: AddAttr RemoveAttr AddRel RemoveRel", "jsonapi.Rel: Invert Normalize String",
			"the package's map-range loops (43 today) under the seeded map-order scheduler (instrumented scratch copy of /repo's working tree)",
		},
		Stub: []string{"reference schema model (ordered list of {name, attrs, rels})"},
	}

	switch prop {
	case "C14":
		d.Rule = "one run = one seeded history of 1..40 schema edits over a colliding name pool, applied to a real Schema and to the model; " +
			"non-trivial = at least 3 edits executed of which at least one succeeded; distinct = distinct event-log hash (operations, arguments, results, states)"
		d.Assumptions = []string{
			"AddType is given nil, empty or well-formed initial maps (key = name, valid kind, non-empty target), so an ill-formed state is attributable to the library",
			"where the statement does not pin an outcome down (an Add* of a fresh valid name that returns an error, or an Add* that succeeds although the documented precondition fails) the model follows the library and only the invariants are checked",
			"a relationship that is its own inverse is never generated (outside the domain)",
		}
		d.Probes = []string{
			"edit-error-returned", "remove-absent", "remove-type-not-last", "twoway-non-normalised", "twoway-same-type",
			"twoway-missing-type", "twoway-name-taken", "twoway-ok", "addtype-duplicate", "addtype-with-fields",
		}
		d.FaultKinds = []string{"failing-edit (error returned by an edit; the only fault this engine has: the library does no I/O)"}
	case "C15":
		d.Rule = "one run = one seeded edit history (as C14, plus arbitrary FromType and pre-populated types); after every step Check() is called under a fresh map order and compared with an independent count of offending relationships; " +
			"non-trivial = at least one state with >=1 relationship was checked; distinct = distinct event-log hash; distinct_model_states counts distinct schema contents checked"
		d.Assumptions = []string{
			"'names it back' is read on names only; a state whose only offence is a reciprocal with another target type is not judged either way",
			"the soundness/completeness law is a pure function of the state and is sampled on the states histories reach, not enumerated",
		}
		d.Probes = []string{"state-clean", "state-offending", "state-mistyped-inverse-only", "state-fromtype-mismatch", "state-dangling-target", "state-unreciprocated", "state-own-inverse", "state-bulk-offenders", "state-many-types-at-once"}
	case "C16":
		d.Rule = "one run = one seeded coherent schema (types, one-way relationships, two-way pairs over names whose concatenations and underscore joins collide) built three times in permuted type/relationship order; Rels() of the three under different map orders must be one list with each one-way relationship once and one member of each pair; " +
			"algebraic laws of Invert/Normalize/String are evaluated on every relationship created; non-trivial = schema with >=1 two-way pair or >=2 relationships; distinct = distinct event-log hash"
		d.Assumptions = []string{
			"only fully consistent schemas are judged: every two-way relationship's reciprocal is exactly its inverse and FromType is the owner",
			"self-inverse relationships are never generated",
			"the laws on Rel values are sampled over the name pool, not enumerated over all strings",
		}
		d.Probes = []string{"colliding-concatenation-pair", "underscore-colliding-relationships", "two-way-pair", "one-way-rel", "same-type-pair", "rels-after-removal", "names-held-by-other-relationships-first", "world-with-dozens-of-relationships", "rels-peeked-while-building", "pair-added-with-AddTwoWayRel"}
	}

	if prop == "C15" {
		d.Rule += "; now and then the caller re-keys a type's Rels map (keys other than the relationship names); the model is re-read from the schema before each query"
		d.Probes = append(d.Probes, "state-rels-map-keyed-by-other-than-name")
	}

	return d
}

// name pool: concatenations collide ("ab"+"c" = "a"+"bc") and so do
// underscore joins ("a_b"+"c" vs "a"+"b_c").
var pool = []string{"a", "ab", "b", "bc", "c", "a_b", "b_c", "abc", "d", ""}

type hist struct {
	t     *core.Tape
	st    *core.Stats
	s     *jsonapi.Schema
	m     *mSchema
	names []string
	prop  string
	steps int
	succ  int
	// bulked: a type with many relationships was added; the run ends after the
	// next observation (every further step would cost as much as a whole run)
	bulked bool
}

func (h *hist) name() string { return h.names[h.t.Draw(len(h.names))] }

func (h *hist) existingType() string {
	if len(h.m.Types) > 0 && h.t.Bool(5, 6) {
		return h.m.Types[h.t.Draw(len(h.m.Types))].Name
	}

	return h.name()
}

func (h *hist) attr() jsonapi.Attr {
	kind := h.t.Range(1, 14)
	if h.t.Bool(1, 12) {
		// invalid kinds: the neighbours of the valid range, and valid kinds shifted by
		// multiples of 256 / 65536 (a narrowing conversion must not make them valid)
		switch h.t.Draw(4) {
		case 0:
			kind = []int{0, 15, -1}[h.t.Draw(3)]
		case 1:
			kind += 256 * h.t.Range(1, 3)
		case 2:
			kind -= 256
		default:
			kind += 65536 * h.t.Range(1, 2)
		}
	}

	return jsonapi.Attr{Name: h.name(), Type: kind, Nullable: h.t.Bool(1, 2)}
}

func (h *hist) viol(clause, site, input, format string, a ...interface{}) *core.Violation {
	return &core.Violation{Property: h.prop, Clause: clause, Site: site, Input: input, Message: fmt.Sprintf(format, a...)}
}

// wellFormedFields draws initial maps for AddType.
func (h *hist) initialFields(typeName string) (map[string]jsonapi.Attr, map[string]jsonapi.Rel, string) {
	switch h.t.Draw(4) {
	case 0:
		return nil, nil, "nil"
	case 1:
		return map[string]jsonapi.Attr{}, map[string]jsonapi.Rel{}, "empty"
	}

	attrs := map[string]jsonapi.Attr{}
	rels := map[string]jsonapi.Rel{}
	desc := ""

	for i := 0; i < 3 && h.t.More(3); i++ {
		n := h.name()
		if n == "" {
			continue
		}

		a := jsonapi.Attr{Name: n, Type: h.t.Range(1, 14), Nullable: h.t.Bool(1, 2)}
		attrs[n] = a
		desc += fmt.Sprintf(" attr %q:%d:%v", n, a.Type, a.Nullable)
	}

	for i := 0; i < 3 && h.t.More(3); i++ {
		n := h.name()
		to := h.name()

		if n == "" || to == "" {
			continue
		}

		r := jsonapi.Rel{FromType: typeName, FromName: n, ToOne: h.t.Bool(1, 2), ToType: to, ToName: h.name(), FromOne: h.t.Bool(1, 2)}
		if h.prop == "C15" && h.t.Bool(1, 5) {
			r.FromType = h.name()
		}

		if r.ToType == r.FromType && r.ToName == r.FromName && h.prop != "C15" {
			r.ToName = ""
		}

		rels[n] = r
		desc += " rel " + relText(r)
	}

	return attrs, rels, "with" + desc
}

func copyAttrs(m map[string]jsonapi.Attr) map[string]jsonapi.Attr {
	c := map[string]jsonapi.Attr{}
	for _, k := range sortedAttrKeys(m) {
		c[k] = m[k]
	}

	return c
}

func copyRels(m map[string]jsonapi.Rel) map[string]jsonapi.Rel {
	c := map[string]jsonapi.Rel{}
	for _, k := range sortedRelKeys(m) {
		c[k] = m[k]
	}

	return c
}

// step performs one edit on the real schema and on the model. It returns a
// violation (C14 only) or nil; aborted is true when the history cannot go on
// (a library panic or a listed finding).
func (h *hist) step() (v *core.Violation, aborted bool) {
	t, s, m := h.t, h.s, h.m
	before := content(s)
	beforeExact := contentExact(s)

	var (
		err      error
		opName   string
		site     string
		input    string
		expectOK bool // the documented preconditions hold
		pinned   bool // the statement pins the outcome: with expectOK the call must succeed
		apply    func()
		call     func()
		isRemove bool
		absent   bool
	)

	if h.prop == "C15" && t.Bool(1, 60) {
		// one type with many relationships at once (dangling and two-way: two errors
		// each in today's Check), so that "one error per offender" is also exercised
		// far beyond a screenful of errors
		n := h.name()
		rels := map[string]jsonapi.Rel{}
		cnt := t.Range(40, 130)

		for i := 0; i < cnt; i++ {
			rn := fmt.Sprintf("bulk%d", i)
			rels[rn] = jsonapi.Rel{FromType: n, FromName: rn, ToType: "nowhere", ToName: "back", ToOne: i%2 == 0}
		}

		h.st.Inc("probe:state-bulk-offenders")

		if t.Bool(1, 2) {
			// ... or many types at once (8..24), each with one or two offenders: whatever
			// Check does differently for large schemas is on its other side here
			ntypes := t.Range(8, 24)
			added := 0

			for i := 0; i < ntypes; i++ {
				tn := fmt.Sprintf("%s-many%d", n, i)
				trels := map[string]jsonapi.Rel{"r1": {FromType: tn, FromName: "r1", ToType: "nowhere", ToOne: true}}

				if i%3 == 0 {
					trels["r2"] = jsonapi.Rel{FromType: tn, FromName: "r2", ToType: tn, ToName: "missing-inverse"}
				}

				var err error

				if p := core.Call(func() { err = s.AddType(jsonapi.Type{Name: tn, Rels: trels}) }); p != nil {
					return nil, true
				}

				if err == nil {
					added++
				}
			}

			h.st.Inc("probe:state-many-types-at-once")
			t.Logf("AddType x %d (names %q-many<i>, one or two offending relationships each) -> %d added", ntypes, n, added)
			m.resync(s)
			h.steps++
			h.bulked = true

			return nil, false
		}

		var err error

		if p := core.Call(func() { err = s.AddType(jsonapi.Type{Name: n, Rels: rels}) }); p != nil {
			return nil, true
		}

		t.Logf("AddType(%q with %d dangling two-way relationships) -> err=%v", n, cnt, err)
		m.resync(s)
		h.steps++
		h.bulked = true

		return nil, false
	}

	if h.prop == "C15" && len(s.Types) > 0 && t.Bool(1, 12) {
		// The caller re-keys the field maps of one type: Type.Attrs and Type.Rels are
		// exported maps and a relationship is what its Rel value says, whatever key it
		// is stored under (types written as literals or decoded from a file have their
		// own key conventions; the repository's own TestSchemaCheck stores one under
		// another key). The set of relationships, and so Check's verdict, is the same.
		k := t.Draw(len(s.Types))
		style := t.Draw(3)
		rekeyed := map[string]jsonapi.Rel{}

		for i, key := range sortedRelKeys(s.Types[k].Rels) {
			nk := ""

			switch style {
			case 0:
				nk = "Field" + key
			case 1:
				nk = fmt.Sprintf("%03d", i)
			default:
				nk = s.Types[k].Name + "." + key
			}

			rekeyed[nk] = s.Types[k].Rels[key]
		}

		if s.Types[k].Rels != nil {
			s.Types[k].Rels = rekeyed
		}

		t.Logf("caller re-keys the Rels map of type %q (style %d, %d relationships)", s.Types[k].Name, style, len(rekeyed))
		h.st.Inc("probe:state-rels-map-keyed-by-other-than-name")
		m.resync(s)
		h.steps++

		return nil, false
	}

	switch op := t.Draw(16); {
	case op < 3: // AddType
		n := h.name()
		attrs, rels, desc := h.initialFields(n)
		opName = fmt.Sprintf("AddType(%q %s)", n, desc)
		site, input = "Schema.AddType", "fresh"
		expectOK = n != "" && m.find(n) == nil

		if m.find(n) != nil {
			input = "duplicate-name"
			h.st.Inc("probe:addtype-duplicate")
		} else if n == "" {
			input = "empty-name"
		}

		if len(attrs)+len(rels) > 0 {
			h.st.Inc("probe:addtype-with-fields")
		}

		call = func() { err = s.AddType(jsonapi.Type{Name: n, Attrs: attrs, Rels: rels}) }
		apply = func() {
			m.Types = append(m.Types, &mType{Name: n, Attrs: copyAttrs(attrs), Rels: copyRels(rels)})
		}
	case op < 5: // RemoveType
		n := h.existingType()
		opName = fmt.Sprintf("RemoveType(%q)", n)
		site, isRemove = "Schema.RemoveType", true
		absent = m.find(n) == nil
		input = "present-last"

		if absent {
			input = "absent"
		} else if m.Types[len(m.Types)-1].Name != n {
			input = "present-not-last"
			h.st.Inc("probe:remove-type-not-last")
		}

		expectOK = true
		call = func() { s.RemoveType(n) }
		apply = func() { m.remove(n) }
	case op < 8: // AddAttr
		tn := h.existingType()
		a := h.attr()
		opName = fmt.Sprintf("AddAttr(%q, %q:%d:%v)", tn, a.Name, a.Type, a.Nullable)
		site, input = "Schema.AddAttr", "fresh"
		mt := m.find(tn)

		switch {
		case mt == nil:
			input = "missing-type"
		case a.Name == "":
			input = "empty-name"
		case !validKind(a.Type):
			input = "invalid-kind"
		default:
			if _, dup := mt.Attrs[a.Name]; dup {
				input = "duplicate-name"
			}
		}

		expectOK = input == "fresh"
		call = func() { err = s.AddAttr(tn, a) }
		apply = func() { mt.Attrs[a.Name] = a }
	case op < 9: // RemoveAttr
		tn := h.existingType()
		n := h.name()
		opName = fmt.Sprintf("RemoveAttr(%q, %q)", tn, n)
		site, isRemove = "Schema.RemoveAttr", true
		mt := m.find(tn)
		absent = mt == nil

		if mt != nil {
			_, ok := mt.Attrs[n]
			absent = !ok
		}

		input = map[bool]string{true: "absent", false: "present"}[absent]
		expectOK = true
		call = func() { s.RemoveAttr(tn, n) }
		apply = func() {
			if mt != nil {
				delete(mt.Attrs, n)
			}
		}
	case op < 12: // AddRel
		tn := h.existingType()
		r := jsonapi.Rel{FromType: tn, FromName: h.name(), ToOne: t.Bool(1, 2), ToType: h.existingType(), ToName: "", FromOne: t.Bool(1, 2)}

		if t.Bool(1, 2) {
			r.ToName = h.name()
		}

		if h.prop == "C15" && t.Bool(1, 5) {
			r.FromType = h.name()
		}

		if h.prop == "C15" && t.Bool(1, 8) {
			// a relationship that is its own inverse (friends <-> friends): reciprocated by itself
			r.FromType, r.ToType, r.ToName = tn, tn, r.FromName
			h.st.Inc("probe:state-own-inverse")
		} else if r.ToType == r.FromType && r.ToName == r.FromName {
			r.ToName = ""
		}

		opName = fmt.Sprintf("AddRel(%q, %s)", tn, relText(r))
		site, input = "Schema.AddRel", "fresh"
		mt := m.find(tn)

		switch {
		case mt == nil:
			input = "missing-type"
		case r.FromName == "":
			input = "empty-name"
		case r.ToType == "":
			input = "empty-target"
		default:
			if _, dup := mt.Rels[r.FromName]; dup {
				input = "duplicate-name"
			}
		}

		expectOK = input == "fresh"
		call = func() { err = s.AddRel(tn, r) }
		apply = func() { mt.Rels[r.FromName] = r }
	case op < 13: // RemoveRel
		tn := h.existingType()
		n := h.name()
		opName = fmt.Sprintf("RemoveRel(%q, %q)", tn, n)
		site, isRemove = "Schema.RemoveRel", true
		mt := m.find(tn)
		absent = mt == nil

		if mt != nil {
			_, ok := mt.Rels[n]
			absent = !ok
		}

		input = map[bool]string{true: "absent", false: "present"}[absent]
		expectOK = true
		call = func() { s.RemoveRel(tn, n) }
		apply = func() {
			if mt != nil {
				delete(mt.Rels, n)
			}
		}
	default: // AddTwoWayRel
		r := jsonapi.Rel{
			FromType: h.existingType(), FromName: h.name(), ToOne: t.Bool(1, 2),
			ToType: h.existingType(), ToName: h.name(), FromOne: t.Bool(1, 2),
		}

		if r.FromType == r.ToType && r.FromName == r.ToName {
			// its own inverse: outside the domain; make it a legal one instead
			r.ToName = ""
		}

		opName = fmt.Sprintf("AddTwoWayRel(%s)", relText(r))
		site = "Schema.AddTwoWayRel"
		mf, mt := m.find(r.FromType), m.find(r.ToType)

		switch {
		case mf == nil || mt == nil:
			input = "missing-type"
			h.st.Inc("probe:twoway-missing-type")
		case r.FromName == "" || r.ToName == "":
			input = "empty-name"
		default:
			_, t1 := mf.Rels[r.FromName]
			_, t2 := mt.Rels[r.ToName]

			if t1 || t2 {
				input = "name-taken"
				h.st.Inc("probe:twoway-name-taken")
			} else {
				input = "valid"

				if r.FromType+r.FromName >= r.ToType+r.ToName {
					input = "valid-non-normalised"
					h.st.Inc("probe:twoway-non-normalised")
				}

				if r.FromType == r.ToType {
					input += "-same-type"
					h.st.Inc("probe:twoway-same-type")
				}
			}
		}

		expectOK = input != "missing-type" && input != "empty-name" && input != "name-taken"
		pinned = true
		inv := jsonapi.Rel{FromType: r.ToType, FromName: r.ToName, ToOne: r.FromOne, ToType: r.FromType, ToName: r.FromName, FromOne: r.ToOne}
		call = func() { err = s.AddTwoWayRel(r) }
		apply = func() {
			mf.Rels[r.FromName] = r
			mt.Rels[inv.FromName] = inv
			h.st.Inc("probe:twoway-ok")
		}
	}

	h.steps++
	h.st.Inc("op:" + site)

	p := core.Call(call)
	c14 := h.prop == "C14"

	if p != nil {
		t.Logf("%s -> PANIC %s in %s", opName, p.Value, p.Func)

		if c14 {
			v := h.viol("no-panic", p.Func, site+":"+input+":"+p.Class, "%s panicked: %s", opName, p.Value)
			if h.st.Fail(v) {
				return v, true
			}
		}

		h.st.Inc("probe:history-aborted-by-edit-panic")

		return nil, true
	}

	after := content(s)
	afterExact := contentExact(s)
	t.Logf("%s -> err=%v", opName, err)

	if err != nil {
		h.st.Inc("probe:edit-error-returned")
		h.st.Inc("fault:failing-edit (error returned by an edit; the only fault this engine has: the library does no I/O)")

		if afterExact != beforeExact {
			before, after = beforeExact, afterExact
			t.Logf("  before: %s", before)
			t.Logf("  after:  %s", after)

			if c14 {
				v := h.viol("error-atomic", site, input, "%s returned error %q but changed the schema\n    before: %s\n    after:  %s", opName, err, before, after)
				if h.st.Fail(v) {
					return v, true
				}

				return nil, true
			}

			m.resync(s)

			return nil, false
		}

		if expectOK && pinned && c14 {
			v := h.viol("twoway-must-succeed", site, input, "%s returned error %q although both types exist and both names are free", opName, err)
			if h.st.Fail(v) {
				return v, true
			}

			return nil, true
		}

		return nil, false
	}

	// The call returned no error.
	h.succ++

	if isRemove && absent {
		h.st.Inc("probe:remove-absent")

		if afterExact != beforeExact && c14 {
			before, after = beforeExact, afterExact
			v := h.viol("remove-absent-noop", site, input, "%s removed something absent yet the schema changed\n    before: %s\n    after:  %s", opName, before, after)
			if h.st.Fail(v) {
				return v, true
			}

			return nil, true
		}
	}

	if expectOK {
		apply()

		if want := m.content(); want != after {
			t.Logf("  model: %s", want)
			t.Logf("  real:  %s", after)

			if c14 {
				v := h.viol("state-equals-model", site, input, "after %s the schema differs from the model\n    model: %s\n    real:  %s", opName, want, after)
				if h.st.Fail(v) {
					return v, true
				}

				return nil, true
			}

			m.resync(s)
		}
	} else {
		// Outcome not pinned down by the statement: follow the library.
		h.st.Inc("probe:success-despite-failed-precondition")
		m.resync(s)
	}

	return nil, false
}

// lookups checks clause (e): HasType / GetType agree with the list of types.
func (h *hist) lookups() *core.Violation {
	for _, n := range h.names {
		var (
			has bool
			got jsonapi.Type
		)

		if p := core.Call(func() { has = h.s.HasType(n); got = h.s.GetType(n) }); p != nil {
			return h.viol("no-panic", p.Func, "lookup:"+p.Class, "lookup of %q panicked: %s", n, p.Value)
		}

		idx := -1

		for i := range h.s.Types {
			if h.s.Types[i].Name == n {
				idx = i
				break
			}
		}

		switch {
		case has != (idx >= 0):
			return h.viol("lookup-agrees", "Schema.HasType", "pool-name", "HasType(%q) = %v but the list of types says %v", n, has, idx >= 0)
		case idx < 0 && got.Name != "":
			return h.viol("lookup-agrees", "Schema.GetType", "absent", "GetType(%q) returned type %q for an absent name", n, got.Name)
		case idx >= 0 && typeText(got.Name, got.Attrs, got.Rels) != typeText(h.s.Types[idx].Name, h.s.Types[idx].Attrs, h.s.Types[idx].Rels):
			return h.viol("lookup-agrees", "Schema.GetType", "present", "GetType(%q) = %s but the list holds %s", n,
				typeText(got.Name, got.Attrs, got.Rels), typeText(h.s.Types[idx].Name, h.s.Types[idx].Attrs, h.s.Types[idx].Rels))
		}
	}

	return nil
}

// namePool builds the run's name pool. Besides the fixed pool it holds names made
// of single letters joined by one separator drawn per run, so that any way of
// joining two names with that separator is ambiguous ("a" + sep + "b.c" against
// "a.b" + sep + "c"); names equal up to case; names equal up to leading zeros of
// a number; and the member names a JSON:API document reserves (id, type).
func namePool(t *core.Tape) []string {
	sep := []string{".", "_", "-", ":", " ", "/", ""}[t.Draw(7)]
	p := append([]string{}, pool...)

	for _, x := range []string{"a", "b", "c"} {
		for _, y := range []string{"a", "b", "c"} {
			p = append(p, x+sep+y)
		}
	}

	p = append(p, "a"+sep+"b"+sep+"c", "A", "Ab", "aB", "id", "type", "r1", "r01", "r001", "r10", "r2")

	if sep != "" {
		// the separator at either end and on its own (a blank name, with sep = " ")
		p = append(p, "a"+sep, sep+"a", sep, "b"+sep, "\ta\n")
	}

	return p
}

func (h *hist) pickNames() {
	p := namePool(h.t)
	n := h.t.Range(3, 7)
	perm := core.NewRng(h.t.Seed64()).Perm(len(p))
	h.names = nil
	seen := map[string]bool{}

	for _, i := range perm {
		if len(h.names) == n {
			break
		}

		if !seen[p[i]] {
			seen[p[i]] = true
			h.names = append(h.names, p[i])
		}
	}
}

// Run implements core.Engine.
func (e Engine) Run(prop string, t *core.Tape, st *core.Stats) *core.Violation {
	if prop == "C16" {
		return runC16(t, st)
	}

	h := &hist{t: t, st: st, s: &jsonapi.Schema{}, m: &mSchema{}, prop: prop}
	h.pickNames()

	maxOps := t.Bound(40, 120)
	stop := t.Range(3, maxOps)
	checkedRel := false
	// in some runs the queries (lookups, Check) are issued only every k-th edit, so
	// that state kept between queries is not refreshed by the checker itself
	every := []int{1, 1, 1, 2, 3, 5}[t.Draw(6)]

	// observe issues the property's queries on the current state; stop is true
	// when the run is over (a violation, or a listed finding)
	observe := func() (v *core.Violation, stop bool) {
		switch prop {
		case "C14":
			if msg := invariants(h.s); msg != "" {
				v := h.viol("well-formed", "Schema", "after-edit", "%s\n    schema: %s", msg, content(h.s))
				if st.Fail(v) {
					return v, true
				}

				return nil, true
			}

			if v := h.lookups(); v != nil {
				if st.Fail(v) {
					return v, true
				}

				return nil, true
			}

			st.State(core.HashString(content(h.s)))
		case "C15":
			v, hadRel := h.checkC15()
			if v != nil {
				if st.Fail(v) {
					return v, true
				}

				return nil, true
			}

			checkedRel = checkedRel || hadRel
		}

		return nil, false
	}

	unobserved := false

	for i := 0; i < maxOps && t.More(stop); i++ {
		v, aborted := h.step()
		if v != nil {
			return v
		}

		if aborted {
			unobserved = false
			break
		}

		st.Steps++
		unobserved = true

		if h.steps%every != 0 && !h.bulked {
			continue
		}

		unobserved = false

		if v, stop := observe(); stop {
			return v
		}

		if h.bulked {
			break
		}
	}

	if unobserved {
		if v, stop := observe(); stop {
			return v
		}
	}

	if prop == "C14" && h.steps >= 3 && h.succ >= 1 {
		st.MarkNonTrivial()
	}

	if prop == "C15" && checkedRel {
		st.MarkNonTrivial()
	}

	return nil
}

// checkC15 calls Check() on the current state under a fresh map order.
func (h *hist) checkC15() (*core.Violation, bool) {
	// Check is judged on the schema as it is now; how it got there is C14's matter
	h.m.resync(h.s)

	before := content(h.s)
	beforeExact := contentExact(h.s) // with the nil-ness of every field map
	strict, loose := offending(h.m)
	nrels := 0

	for _, mt := range h.m.Types {
		nrels += len(mt.Rels)
	}

	var errs, errs2 []error

	mo := core.DrawMapOrder(h.t)
	p := core.Call(func() { mo.With(func() { errs = h.s.Check() }) })
	h.st.MapOrder(mo)

	if p != nil {
		return h.viol("no-panic", p.Func, "check:"+p.Class, "Check() panicked: %s\n    schema: %s", p.Value, before), nrels > 0
	}

	mo2 := core.NewMapOrder(core.MOReverse, 1, 0)
	if mo.Policy == core.MOReverse {
		mo2 = core.NewMapOrder(core.MOSorted, 1, 0)
	}

	if p := core.Call(func() { mo2.With(func() { errs2 = h.s.Check() }) }); p != nil {
		return h.viol("no-panic", p.Func, "check:"+p.Class, "Check() panicked: %s\n    schema: %s", p.Value, before), nrels > 0
	}

	h.t.Logf("Check() [%s] -> %d errors; model: %d offending (%d incl. mis-typed reciprocals)", mo.Name(), len(errs), strict, loose)
	h.st.State(core.HashString(before))

	switch {
	case loose == 0:
		h.st.Inc("probe:state-clean")
	case strict == 0:
		h.st.Inc("probe:state-mistyped-inverse-only")
	default:
		h.st.Inc("probe:state-offending")
	}

	h.classify()

	if after := contentExact(h.s); after != beforeExact {
		return h.viol("check-readonly", "Schema.Check", "any", "Check() modified the schema\n    before: %s\n    after:  %s", beforeExact, after), nrels > 0
	}

	if errs == nil {
		// An empty, non-nil list is what the function documents; nil is tolerated
		// (len 0) — the statement speaks of "an empty list".
		errs = []error{}
	}

	if len(errs) != len(errs2) {
		return h.viol("check-order-independent", "Schema.Check", "map-order", "Check() returned %d errors under map order %s and %d under %s\n    schema: %s",
			len(errs), mo.Name(), len(errs2), mo2.Name(), before), nrels > 0
	}

	switch {
	case loose == 0 && len(errs) != 0:
		return h.viol("check-sound", "Schema.Check", "coherent-schema", "Check() reports %d errors (first: %v) on a schema with no offending relationship\n    schema: %s",
			len(errs), errs[0], before), nrels > 0
	case strict > 0 && len(errs) == 0:
		return h.viol("check-complete", "Schema.Check", "offending-schema", "Check() reports nothing but %d relationships offend\n    schema: %s", strict, before), nrels > 0
	case strict > 0 && len(errs) < strict:
		return h.viol("check-one-per-offender", "Schema.Check", "offending-schema", "Check() reports %d errors for %d offending relationships\n    schema: %s", len(errs), strict, before), nrels > 0
	}

	return nil, nrels > 0
}

// classify feeds the reach probes of C15.
func (h *hist) classify() {
	for _, mt := range h.m.Types {
		for _, k := range sortedRelKeys(mt.Rels) {
			r := mt.Rels[k]
			target := h.m.find(r.ToType)

			if target == nil {
				h.st.Inc("probe:state-dangling-target")
			}

			if r.ToName != "" && r.FromType != mt.Name {
				h.st.Inc("probe:state-fromtype-mismatch")
			}

			if r.ToName != "" && r.FromType == mt.Name && target != nil {
				found := false

				for _, ik := range sortedRelKeys(target.Rels) {
					if target.Rels[ik].FromName == r.ToName && target.Rels[ik].ToName == r.FromName {
						found = true
					}
				}

				if !found {
					h.st.Inc("probe:state-unreciprocated")
				}
			}
		}
	}
}
