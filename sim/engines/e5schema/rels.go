package e5schema

import (
	"fmt"
	"strings"

	"github.com/mfcochauxlaberge/jsonapi"

	"verifsim/core"
)

// relSpec is one relationship of a coherent schema spec: a one-way relationship
// (B == "") or a two-way pair (A.NameA <-> B.NameB).
type relSpec struct {
	r      jsonapi.Rel
	twoWay bool
}

func invert(r jsonapi.Rel) jsonapi.Rel {
	return jsonapi.Rel{FromType: r.ToType, FromName: r.ToName, ToOne: r.FromOne, ToType: r.FromType, ToName: r.FromName, FromOne: r.ToOne}
}

func c16viol(clause, site, input, format string, a ...interface{}) *core.Violation {
	return &core.Violation{Property: "C16", Clause: clause, Site: site, Input: input, Message: fmt.Sprintf(format, a...)}
}

func nameClass(r jsonapi.Rel) string {
	switch {
	case r.ToName == "":
		return "one-way"
	case r.FromType+r.FromName == r.ToType+r.ToName:
		return "two-way-colliding-concatenation"
	case strings.Contains(r.FromType+r.FromName+r.ToType+r.ToName, "_"):
		return "two-way-underscore-names"
	default:
		return "two-way"
	}
}

// laws checks the algebraic laws of C16 on one relationship value.
func laws(t *core.Tape, st *core.Stats, r jsonapi.Rel) *core.Violation {
	var (
		inv, inv2, n, nn, ninv jsonapi.Rel
		s1, s2                 string
	)

	orig := r

	p := core.Call(func() {
		inv = r.Invert()
		inv2 = inv.Invert()
		n = r.Normalize()
		nn = n.Normalize()
		ninv = inv.Normalize()
		s1 = r.String()
		s2 = inv.String()
	})
	if p != nil {
		return c16viol("no-panic", p.Func, nameClass(r)+":"+p.Class, "law evaluation on %s panicked: %s", relText(r), p.Value)
	}

	st.Inc("op:Rel.laws")

	cls := nameClass(orig)

	switch {
	case r != orig:
		return c16viol("laws-readonly", "Rel", cls, "Invert/Normalize/String modified their receiver %s -> %s", relText(orig), relText(r))
	case inv2 != r:
		return c16viol("invert-involution", "Rel.Invert", cls, "Invert(Invert(r)) = %s for r = %s", relText(inv2), relText(r))
	case nn != n:
		return c16viol("normalize-idempotent", "Rel.Normalize", cls, "Normalize(Normalize(r)) = %s but Normalize(r) = %s for r = %s", relText(nn), relText(n), relText(r))
	case n != r && n != inv:
		return c16viol("normalize-picks-r-or-inverse", "Rel.Normalize", cls, "Normalize(r) = %s is neither r = %s nor its inverse", relText(n), relText(r))
	case r.ToName == "" && n != r:
		return c16viol("normalize-one-way-identity", "Rel.Normalize", cls, "Normalize changed the one-way relationship %s into %s", relText(r), relText(n))
	}

	if r.ToName != "" {
		if ninv != n {
			return c16viol("normalize-same-for-inverse", "Rel.Normalize", cls, "Normalize(r) = %s but Normalize(inverse(r)) = %s for r = %s", relText(n), relText(ninv), relText(r))
		}

		if s1 != s2 {
			return c16viol("string-same-for-inverse", "Rel.String", cls, "String(r) = %q but String(inverse(r)) = %q for r = %s", s1, s2, relText(r))
		}
	}

	return nil
}

type c16world struct {
	types []string
	rels  []relSpec
}

func genWorld(t *core.Tape, st *core.Stats) *c16world {
	w := &c16world{}
	names := []string{"a", "ab", "b", "bc", "c", "a_b", "b_c", "abc", "d"}

	for _, n := range namePool(t) {
		if n != "" && !has(names, n) {
			names = append(names, n)
		}
	}

	perm := core.NewRng(t.Seed64()).Perm(len(names))
	nt := t.Range(1, 5)

	for _, i := range perm[:nt] {
		w.types = append(w.types, names[i])
	}

	taken := map[string]bool{} // type + "\x00" + name

	free := func(typ, name string) bool { return !taken[typ+"\x00"+name] }
	take := func(typ, name string) { taken[typ+"\x00"+name] = true }

	stop := t.Range(2, 9)
	maxRels := 10

	// now and then a schema with a few dozen relationships (whatever the library does
	// differently for long lists — e.g. the sort algorithm — is on its other side)
	if t.Bool(1, 10) {
		maxRels, stop = 45, t.Range(25, 60)
		st.Inc("probe:world-with-dozens-of-relationships")
	}

	for i := 0; i < maxRels && t.More(stop); i++ {
		a := w.types[t.Draw(len(w.types))]
		b := w.types[t.Draw(len(w.types))]
		na := names[t.Draw(len(names))]
		nb := names[t.Draw(len(names))]

		if t.Bool(1, 3) {
			// one-way
			if !free(a, na) {
				continue
			}

			take(a, na)
			w.rels = append(w.rels, relSpec{r: jsonapi.Rel{FromType: a, FromName: na, ToOne: t.Bool(1, 2), ToType: b, FromOne: t.Bool(1, 2)}})
			st.Inc("probe:one-way-rel")

			continue
		}

		if t.Bool(1, 3) {
			// steer towards colliding concatenations: a+na == b+nb
			for _, cand := range [][4]string{{"ab", "c", "a", "bc"}, {"a", "bc", "ab", "c"}, {"a", "b", "ab", ""}, {"a_b", "c", "a", "b_c"}, {"a", "b_c", "a_b", "c"}} {
				if has(w.types, cand[0]) && has(w.types, cand[2]) && cand[3] != "" {
					a, na, b, nb = cand[0], cand[1], cand[2], cand[3]
					break
				}
			}
		}

		if (a == b && na == nb) || !free(a, na) || !free(b, nb) {
			continue
		}

		take(a, na)
		take(b, nb)

		r := jsonapi.Rel{FromType: a, FromName: na, ToOne: t.Bool(1, 2), ToType: b, ToName: nb, FromOne: t.Bool(1, 2)}
		w.rels = append(w.rels, relSpec{r: r, twoWay: true})
		st.Inc("probe:two-way-pair")

		if a == b {
			st.Inc("probe:same-type-pair")
		}

		if a+na == b+nb {
			st.Inc("probe:colliding-concatenation-pair")
		}
	}

	// underscore collisions between distinct relationships: String() keys a_b + c vs a + b_c
	keys := map[string]int{}

	for _, rs := range w.rels {
		k := rs.r.FromType + "_" + rs.r.FromName
		keys[k]++

		if rs.twoWay {
			keys[rs.r.ToType+"_"+rs.r.ToName]++
		}
	}

	for _, k := range core.SortedKeys(toInt64(keys)) {
		if keys[k] > 1 {
			st.Inc("probe:underscore-colliding-relationships")
		}
	}

	return w
}

func toInt64(m map[string]int) map[string]int64 {
	o := map[string]int64{}
	for k, v := range m {
		o[k] = int64(v)
	}

	return o
}

func has(l []string, s string) bool {
	for _, x := range l {
		if x == s {
			return true
		}
	}

	return false
}

// build materialises the world through the public API, types and relationships
// in the given orders.
//
// how (per relationship, may be nil): bit 0 = call Rels() before adding it (a
// caller peeking at a half-built schema must not change what the finished one
// lists), bit 1 = add a two-way pair with AddTwoWayRel instead of two AddRel calls.
func (w *c16world) build(t *core.Tape, typeOrder, relOrder []int, flip []bool, skip map[int]bool, how []int) (*jsonapi.Schema, *core.Panic, error) {
	s := &jsonapi.Schema{}

	var err error

	p := core.Call(func() {
		for _, ti := range typeOrder {
			if err = s.AddType(jsonapi.Type{Name: w.types[ti]}); err != nil {
				return
			}
		}

		for _, ri := range relOrder {
			if skip[ri] {
				continue
			}

			rs := w.rels[ri]
			first, second := rs.r, invert(rs.r)

			if flip[ri] {
				first, second = second, first
			}

			h := 0
			if how != nil {
				h = how[ri]
			}

			if h&1 != 0 {
				_ = s.Rels()
			}

			if h&4 != 0 {
				// The names are first taken by other relationships (one-way, another
				// cardinality, maybe another target), the caller looks at Rels(), removes
				// them again and adds the real ones: same names, other definitions.
				ph1 := jsonapi.Rel{FromType: rs.r.FromType, FromName: rs.r.FromName, ToType: w.types[(ri+1)%len(w.types)], ToOne: !rs.r.ToOne}
				if err = s.AddRel(ph1.FromType, ph1); err != nil {
					return
				}

				if rs.twoWay {
					ph2 := jsonapi.Rel{FromType: rs.r.ToType, FromName: rs.r.ToName, ToType: rs.r.FromType, ToOne: !rs.r.FromOne}
					if err = s.AddRel(ph2.FromType, ph2); err != nil {
						return
					}
				}

				_ = s.Rels()

				s.RemoveRel(rs.r.FromType, rs.r.FromName)

				if rs.twoWay {
					s.RemoveRel(rs.r.ToType, rs.r.ToName)
				}
			}

			switch {
			case !rs.twoWay:
				err = s.AddRel(rs.r.FromType, rs.r)
			case h&2 != 0:
				err = s.AddTwoWayRel(first)
			default:
				if err = s.AddRel(first.FromType, first); err == nil {
					err = s.AddRel(second.FromType, second)
				}
			}

			if err != nil {
				return
			}
		}
	})

	return s, p, err
}

func relsText(rs []jsonapi.Rel) string {
	parts := make([]string, len(rs))
	for i, r := range rs {
		parts[i] = relText(r)
	}

	return "[" + strings.Join(parts, ", ") + "]"
}

func runC16(t *core.Tape, st *core.Stats) *core.Violation {
	w := genWorld(t, st)

	for _, rs := range w.rels {
		t.Logf("spec %s twoWay=%v", relText(rs.r), rs.twoWay)

		if v := laws(t, st, rs.r); v != nil {
			if st.Fail(v) {
				return v
			}

			return nil
		}

		if rs.twoWay {
			if v := laws(t, st, invert(rs.r)); v != nil {
				if st.Fail(v) {
					return v
				}

				return nil
			}
		}
	}

	// a few free-standing relationship values, not bound to a schema
	for i := 0; i < 3; i++ {
		names := pool
		r := jsonapi.Rel{
			FromType: names[t.Draw(len(names))], FromName: names[t.Draw(len(names))], ToOne: t.Bool(1, 2),
			ToType: names[t.Draw(len(names))], ToName: names[t.Draw(len(names))], FromOne: t.Bool(1, 2),
		}

		if r.FromType == r.ToType && r.FromName == r.ToName {
			continue // its own inverse: outside the domain
		}

		if r.ToName != "" && (r.FromName == "" || r.FromType == "" || r.ToType == "") {
			continue // a two-way relationship has two named ends
		}

		t.Logf("value %s", relText(r))

		if v := laws(t, st, r); v != nil {
			if st.Fail(v) {
				return v
			}

			return nil
		}
	}

	npairs := 0
	wtext := fmt.Sprint(w.types)

	for _, rs := range w.rels {
		wtext += relText(rs.r)

		if rs.twoWay {
			npairs++
		}
	}

	st.State(core.HashString(wtext))

	if npairs >= 1 || len(w.rels) >= 2 {
		st.MarkNonTrivial()
	}

	skip := map[int]bool{}
	rounds := 1

	if len(w.rels) > 1 && t.Bool(1, 3) {
		rounds = 2
	}

	for round := 0; round < rounds; round++ {
		if round == 1 {
			skip[t.Draw(len(w.rels))] = true
			st.Inc("probe:rels-after-removal")
		}

		if v := w.compare(t, st, skip, round == 1); v != nil {
			if st.Fail(v) {
				return v
			}

			return nil
		}
	}

	return nil
}

// compare builds the schema in three orders and compares Rels().
func (w *c16world) compare(t *core.Tape, st *core.Stats, skip map[int]bool, viaRemoval bool) *core.Violation {
	rng := core.NewRng(t.Seed64())

	var lists [3][]jsonapi.Rel

	var descs [3]string

	for v := 0; v < 3; v++ {
		typeOrder := make([]int, len(w.types))
		relOrder := make([]int, len(w.rels))
		flip := make([]bool, len(w.rels))
		how := make([]int, len(w.rels))

		for i := range typeOrder {
			typeOrder[i] = i
		}

		for i := range relOrder {
			relOrder[i] = i
		}

		if v > 0 {
			typeOrder = rng.Perm(len(w.types))
			relOrder = rng.Perm(len(w.rels))

			for i := range flip {
				flip[i] = rng.Intn(2) == 1

				if rng.Intn(3) == 0 {
					how[i] |= 1
					st.Inc("probe:rels-peeked-while-building")
				}

				if rng.Intn(2) == 0 {
					how[i] |= 2
					st.Inc("probe:pair-added-with-AddTwoWayRel")
				}

				if rng.Intn(4) == 0 {
					how[i] |= 4
					st.Inc("probe:names-held-by-other-relationships-first")
				}
			}
		}

		buildSkip := skip
		if viaRemoval && v == 0 {
			buildSkip = nil // build everything, then remove through the API
		}

		s, p, err := w.build(t, typeOrder, relOrder, flip, buildSkip, how)
		if p != nil {
			return c16viol("no-panic", p.Func, "build:"+p.Class, "building the schema panicked: %s", p.Value)
		}

		if err != nil {
			// The spec only uses fresh names on existing types; a refusal is not
			// something C16 speaks about, so this world is simply not judged.
			st.Inc("probe:world-refused-by-add")
			t.Logf("variant %d: build refused: %v", v, err)

			return nil
		}

		mo := core.DrawMapOrder(t)

		var rels, again []jsonapi.Rel

		p = core.Call(func() {
			mo.With(func() {
				if viaRemoval && v == 0 {
					_ = s.Rels() // fill whatever cache there is before removing
					for _, ri := range sortedInts(skip) {
						rs := w.rels[ri]
						s.RemoveRel(rs.r.FromType, rs.r.FromName)

						if rs.twoWay {
							s.RemoveRel(rs.r.ToType, rs.r.ToName)
						}
					}
				}

				rels = s.Rels()
			})
		})
		st.MapOrder(mo)

		if p != nil {
			return c16viol("no-panic", p.Func, "rels:"+p.Class, "Rels() panicked: %s", p.Value)
		}

		st.Inc("op:Schema.Rels")

		mo2 := core.NewMapOrder(core.MOReverse, 7, 0)
		if mo.Policy == core.MOReverse {
			mo2 = core.NewMapOrder(core.MOShuffle, t.Seed64(), 0)
		}

		if p := core.Call(func() { mo2.With(func() { again = s.Rels() }) }); p != nil {
			return c16viol("no-panic", p.Func, "rels:"+p.Class, "Rels() panicked: %s", p.Value)
		}

		lists[v] = rels
		descs[v] = fmt.Sprintf("types %v rels %v flipped %v how %v (1=Rels() peeked before, 2=AddTwoWayRel, 4=names first held by other relationships, looked at and removed), map order %s", typeOrder, relOrder, flip, how, mo.Name())
		t.Logf("variant %d (%s): Rels() = %s", v, descs[v], relsText(rels))

		if relsText(rels) != relsText(again) {
			return c16viol("rels-map-order-independent", "Schema.Rels", w.class(skip), "Rels() of one schema differs between map orders %s and %s:\n    %s\n    %s",
				mo.Name(), mo2.Name(), relsText(rels), relsText(again))
		}

		if v := w.membership(rels, skip); v != nil {
			return v
		}
	}

	for v := 1; v < 3; v++ {
		if relsText(lists[v]) != relsText(lists[0]) {
			return c16viol("rels-build-order-independent", "Schema.Rels", w.class(skip), "Rels() depends on how the schema was built:\n    %s -> %s\n    %s -> %s",
				descs[0], relsText(lists[0]), descs[v], relsText(lists[v]))
		}
	}

	return nil
}

func sortedInts(m map[int]bool) []int {
	var out []int

	for i := 0; i < 64; i++ {
		if m[i] {
			out = append(out, i)
		}
	}

	return out
}

// class tags the world for signatures.
func (w *c16world) class(skip map[int]bool) string {
	coll, under := false, false

	for i, rs := range w.rels {
		if skip[i] {
			continue
		}

		if rs.twoWay && rs.r.FromType+rs.r.FromName == rs.r.ToType+rs.r.ToName {
			coll = true
		}

		if strings.Contains(rs.r.FromType+rs.r.FromName+rs.r.ToType+rs.r.ToName, "_") {
			under = true
		}
	}

	// sort-key ties between different relationships: FromType+FromName equal
	tie := false
	seen := map[string]bool{}

	for i, rs := range w.rels {
		if skip[i] {
			continue
		}

		for _, k := range []string{rs.r.FromType + rs.r.FromName, rs.r.ToType + rs.r.ToName} {
			if k == rs.r.ToType+rs.r.ToName && !rs.twoWay {
				continue
			}

			if seen[k] {
				tie = true
			}

			seen[k] = true
		}
	}

	switch {
	case coll:
		return "colliding-concatenation"
	case tie:
		return "concatenation-tie-between-relationships"
	case under:
		return "underscore-names"
	default:
		return "plain-names"
	}
}

// membership: each one-way relationship once, exactly one member of each pair.
func (w *c16world) membership(rels []jsonapi.Rel, skip map[int]bool) *core.Violation {
	count := make([]int, len(w.rels))

	for _, r := range rels {
		matched := false

		for i, rs := range w.rels {
			if skip[i] {
				continue
			}

			if r == rs.r || (rs.twoWay && r == invert(rs.r)) {
				count[i]++
				matched = true

				break
			}
		}

		if !matched {
			return c16viol("rels-only-schema-relationships", "Schema.Rels", w.class(skip), "Rels() lists %s, which is not a relationship of the schema; list: %s", relText(r), relsText(rels))
		}
	}

	for i, rs := range w.rels {
		if skip[i] {
			continue
		}

		kind := "one-way relationship"
		if rs.twoWay {
			kind = "two-way pair"
		}

		if count[i] != 1 {
			return c16viol("rels-each-once", "Schema.Rels", w.class(skip), "Rels() lists the %s %s %d times; list: %s", kind, relText(rs.r), count[i], relsText(rels))
		}
	}

	return nil
}
