// Package e4store is engine E4: one SoftCollection driven by a seeded history
// of Add / Remove / AddAttr / AddRel / SetType / reads and later Set calls on
// the caller's handles, compared with an ordered-list model after every step
// (C19); Range is the store's read path and is issued against the states the
// histories reach, on the SoftCollection and on Resources / WrapperCollection
// holding the same records as wrapped structs (C09).
package e4store

import (
	"fmt"
	"reflect"
	"sort"

	"github.com/mfcochauxlaberge/jsonapi"

	"verifsim/core"
	"verifsim/model"
	"verifsim/world"
)

// field is one field of the collection's current type.
type field struct {
	isAttr bool
	attr   world.AttrSpec
	rel    world.RelSpec
}

func (f field) name() string {
	if f.isAttr {
		return f.attr.Name
	}

	return f.rel.Name
}

// store is the reference model: an ordered list of records plus the field table.
type store struct {
	typeName string
	fields   []field
	recs     []*model.Rec
}

func (s *store) field(name string) *field {
	for i := range s.fields {
		if s.fields[i].name() == name {
			return &s.fields[i]
		}
	}

	return nil
}

func (s *store) zero(f *field) interface{} {
	if f.isAttr {
		return world.ZeroValue(f.attr.Kind, f.attr.Nullable)
	}

	if f.rel.ToOne {
		return ""
	}

	return []string{}
}

// wellTyped reports whether v is a value the field can hold.
func wellTyped(f *field, v interface{}) bool {
	if v == nil {
		return false
	}

	if f.isAttr {
		return reflect.TypeOf(v) == world.GoType(f.attr.Kind, f.attr.Nullable)
	}

	if f.rel.ToOne {
		_, ok := v.(string)
		return ok
	}

	_, ok := v.([]string)

	return ok
}

// typeSpec renders the field table as a TypeSpec (for expected observations and
// for building wrapped twins of the records).
func (s *store) typeSpec() *world.TypeSpec {
	ts := &world.TypeSpec{Name: s.typeName, Struct: true}
	fs := append([]field{}, s.fields...)
	sort.Slice(fs, func(i, j int) bool { return fs[i].name() < fs[j].name() })

	for _, f := range fs {
		if f.isAttr {
			ts.Attrs = append(ts.Attrs, f.attr)
		} else {
			ts.Rels = append(ts.Rels, f.rel)
		}
	}

	return ts
}

func (s *store) resSpec(ts *world.TypeSpec, r *model.Rec) *world.ResSpec {
	rs := &world.ResSpec{Type: ts, ID: r.ID, Vals: map[string]interface{}{}}
	for _, f := range s.fields {
		rs.Vals[f.name()] = r.Vals[f.name()]
	}

	return rs
}

// add is the model of SoftCollection.Add.
func (s *store) add(rs *world.ResSpec) {
	rec := &model.Rec{ID: rs.ID, Vals: map[string]interface{}{}}

	for _, a := range rs.Type.Attrs {
		if s.field(a.Name) == nil {
			s.fields = append(s.fields, field{isAttr: true, attr: a})
		}
	}

	for _, r := range rs.Type.Rels {
		if s.field(r.Name) == nil {
			s.fields = append(s.fields, field{rel: r})
		}
	}

	for i := range s.fields {
		f := &s.fields[i]
		rec.Vals[f.name()] = s.zero(f)
	}

	for _, fn := range rs.Type.Fields() {
		f := s.field(fn)
		v := rs.Vals[fn]

		if wellTyped(f, v) {
			rec.Vals[fn] = world.CloneValue(v)
		}
	}

	// fields added by this Add read zero in the records stored earlier
	for _, old := range s.recs {
		for i := range s.fields {
			f := &s.fields[i]
			if _, ok := old.Vals[f.name()]; !ok {
				old.Vals[f.name()] = s.zero(f)
			}
		}
	}

	s.recs = append(s.recs, rec)
}

func (s *store) remove(id string) bool {
	for i, r := range s.recs {
		if r.ID == id {
			s.recs = append(s.recs[:i:i], s.recs[i+1:]...)
			return true
		}
	}

	return false
}

func (s *store) addField(f field) {
	s.fields = append(s.fields, f)

	for _, r := range s.recs {
		r.Vals[f.name()] = s.zero(&s.fields[len(s.fields)-1])
	}
}

// setFields is the model of SetType: the collection now has exactly these
// fields; values of kept fields stay, new fields read zero.
func (s *store) setFields(name string, fs []field) {
	s.typeName = name
	s.fields = fs

	for _, r := range s.recs {
		nv := map[string]interface{}{}

		for i := range s.fields {
			f := &s.fields[i]
			if v, ok := r.Vals[f.name()]; ok {
				nv[f.name()] = v
			} else {
				nv[f.name()] = s.zero(f)
			}
		}

		r.Vals = nv
	}
}

func (s *store) describe() string {
	ts := s.typeSpec()
	out := ts.Describe() + " ["

	for i, r := range s.recs {
		if i > 0 {
			out += ", "
		}

		out += s.resSpec(ts, r).Describe()
	}

	return out + "]"
}

// compare checks Len, every At (including out-of-range), Resource and the type
// name of the real collection against the model.
func (s *store) compare(col *jsonapi.SoftCollection, ids []string, set bool) (clause, input, msg string, p *core.Panic) {
	ts := s.typeSpec()

	p = core.Call(func() {
		if n := col.Len(); n != len(s.recs) {
			clause, input, msg = "len", "len", fmt.Sprintf("Len() = %d, the model holds %d records", n, len(s.recs))
			return
		}

		if tn := col.GetType().Name; tn != s.typeName {
			clause, input, msg = "type-name", "type-name", fmt.Sprintf("GetType().Name = %q, want %q", tn, s.typeName)
			return
		}

		for _, i := range []int{-1, -2, len(s.recs), len(s.recs) + 1} {
			if r := col.At(i); r != nil {
				clause, input, msg = "at-out-of-range-nil", "out-of-range", fmt.Sprintf("At(%d) on a collection of %d is not nil", i, len(s.recs))
				return
			}
		}

		for i, rec := range s.recs {
			r := col.At(i)
			if r == nil {
				clause, input, msg = "at", "in-range-nil", fmt.Sprintf("At(%d) is nil on a collection of %d", i, len(s.recs))
				return
			}

			want := s.resSpec(ts, rec).ExpectedObservation(set)
			got := world.Observe(r).String(set)

			if got != want {
				clause, input = "at", obsDiff(s, ts, rec, r)
				msg = fmt.Sprintf("At(%d) differs from the model\n    model: %s\n    real:  %s", i, want, got)

				return
			}
		}

		for _, id := range ids {
			var want *model.Rec

			for _, rec := range s.recs {
				if rec.ID == id {
					want = rec
					break
				}
			}

			r := col.Resource(id, nil)

			switch {
			case want == nil && r != nil:
				clause, input, msg = "resource", "absent-id", fmt.Sprintf("Resource(%q) returned a resource although no record has that ID", id)
				return
			case want != nil && r == nil:
				clause, input, msg = "resource", "present-id", fmt.Sprintf("Resource(%q) returned nil although a record has that ID", id)
				return
			case want != nil:
				w := s.resSpec(ts, want).ExpectedObservation(set)
				if got := world.Observe(r).String(set); got != w {
					clause, input = "resource", "first-match"
					msg = fmt.Sprintf("Resource(%q) is not the first record with that ID\n    model: %s\n    real:  %s", id, w, got)

					return
				}
			}
		}
	})

	return clause, input, msg, p
}

// obsDiff classifies the first difference for signatures.
func obsDiff(s *store, ts *world.TypeSpec, rec *model.Rec, r jsonapi.Resource) string {
	o := world.Observe(r)
	want := s.resSpec(ts, rec)

	if o.TypeName != ts.Name {
		return "type-name"
	}

	if o.ID != rec.ID {
		return "id"
	}

	if len(o.Attrs) != len(ts.Attrs) || len(o.Rels) != len(ts.Rels) {
		return "field-set"
	}

	for _, a := range ts.Attrs {
		if _, ok := o.Vals[a.Name]; !ok {
			return "field-set"
		}
	}

	for _, rl := range ts.Rels {
		if _, ok := o.Vals[rl.Name]; !ok {
			return "field-set"
		}
	}

	for _, f := range ts.Fields() {
		if o.Vals[f] != world.Canon(want.Vals[f]) {
			return "value"
		}
	}

	return "field-definition"
}
