package e4store

import (
	"fmt"
	"os"

	"github.com/mfcochauxlaberge/jsonapi"

	"verifsim/core"
	"verifsim/model"
	"verifsim/world"
)

// Engine is E4.
type Engine struct{}

// Name implements core.Engine.
func (Engine) Name() string { return "E4-store" }

// Runs implements core.Engine.
func (Engine) Runs(prop, tier string) int {
	quick := map[string]int{"C19": 16000, "C09": 60000}[prop]
	if tier == "thorough" {
		return quick * 40
	}

	return quick
}

// Describe implements core.Engine.
func (Engine) Describe(prop string) core.Description {
	d := core.Description{
		Level: "exploration",
		Real: []string{
			"jsonapi.SoftCollection (SetType GetType AddAttr AddRel Len At Resource Add Remove)",
			"jsonapi.SoftResource and jsonapi.Wrapper (run-time reflect.StructOf struct types) as the resources handed to Add",
		},
		Stub: []string{"ordered-list store model ({id, values} records + field table)"},
	}

	switch prop {
	case "C19":
		d.Rule = "one run = SetType, then a seeded history of 1..40 operations (Add of a resource of the collection's type / narrower / wider / conflicting kinds, soft or wrapped, duplicate IDs; Remove front/middle/end/absent/duplicate; AddAttr/AddRel new and duplicate; SetType again; later Set on a caller's handle), the real collection compared with the model after every step (Len, every At incl. out-of-range, Resource, type name, each stored resource's fields and values); " +
			"non-trivial = at least 3 operations of which at least one Add; distinct = distinct event-log hash"
		d.Assumptions = []string{
			"AddAttr/AddRel on the collection use fresh names or duplicate a field of the same category; a name that would be both attribute and relationship is never generated",
			"SetType on a non-empty collection installs a type whose same-named fields keep their definitions",
			"'well-typed' for Add: the value's Go type is exactly the Go type of the collection's field of that name",
		}
		d.Probes = []string{"add-same", "add-narrower", "add-wider", "add-conflicting", "add-wrapped", "add-duplicate-id", "remove-first", "remove-middle", "remove-last", "remove-absent", "remove-duplicate-id", "addattr-duplicate", "settype-nonempty", "caller-set-after-add", "field-added-after-store", "lazy-read-back", "bulk-add-phase", "bulk-drain-phase"}
	case "C09":
		d.Real = append(d.Real, "jsonapi.Range, jsonapi.Filter.IsAllowed, jsonapi.Resources, jsonapi.WrapperCollection")
		d.Stub = append(d.Stub, "reference select -> filter evaluator -> rank check -> page slice (written from the statements of C09/C10)")
		d.Rule = "one run = a store built by a seeded history (unique IDs), then 1..6 Range queries (ID subset incl. absent IDs, filter tree of depth <=3 over all operators with well-typed values, 0..4 sorting rules over attributes and id, size in {0,1,2,3,n,n+1}, page number) on the SoftCollection and on Resources / WrapperCollection holding the same records as wrapped structs; result checked by ranks against the reference, consecutive pages must partition the matches, permuted initial order must not matter when id is a rule, the input collection must keep its members and order; " +
			"non-trivial = a query over >=2 records whose reference result is non-empty or whose filter rejects something; distinct = distinct event-log hash"
		d.Assumptions = []string{
			"IDs are unique (the property's domain); rules name attributes of the type or id",
			"a descending rule reverses the whole order of that rule, nil included",
			"filter values are of the Go type of the field (the property says well-typed); 'in' is generated for string-valued fields, 'has' for to-many relationships",
			"sort and filter semantics are sampled, not enumerated; what simulation contributes is the store states the queries run on and the untouched-input clause",
		}
		d.Probes = []string{"range-on-softcollection", "range-on-resources-of-wrappers", "range-on-wrappercollection", "sort-by-uint64", "sort-by-bytes", "sort-nil-present", "sort-ties-without-id", "filter-bytes-order", "filter-nil-operand", "filter-unknown-op", "filter-and-or", "page-beyond-end", "size-zero", "ids-subset", "pages-partition-checked", "permuted-order-checked", "earlier-page-reread", "range-over-earlier-page", "huge-page-size"}
	}

	if prop == "C09" {
		d.Rule += "; one filter object serves all the calls of a query and is then re-targeted (in-lists replaced by others of the same length) and used again; a third of the wrappers of a twin collection are added blank and get ID and values afterwards"
		d.Probes = append(d.Probes, "filter-object-retargeted-and-reused")
	}

	return d
}

func viol(prop, clause, site, input, format string, a ...interface{}) *core.Violation {
	return &core.Violation{Property: prop, Clause: clause, Site: site, Input: input, Message: fmt.Sprintf(format, a...)}
}

type handle struct {
	res jsonapi.Resource
	ts  *world.TypeSpec
}

type sim struct {
	prop    string
	t       *core.Tape
	st      *core.Stats
	col     *jsonapi.SoftCollection
	m       *store
	handles []handle
	nextID  int
	nops    int
	nadds   int
	prev    *prevPage
	// bulkLeft > 0: a bulk phase happened; counts the steps left before the run ends
	bulkLeft int
	fresh   int
	unique  bool // never add a duplicate ID (C09's domain)
}

// Run implements core.Engine.
func (Engine) Run(prop string, t *core.Tape, st *core.Stats) *core.Violation {
	s := &sim{prop: prop, t: t, st: st, unique: prop == "C09"}

	v := s.run()
	if v != nil && !st.Fail(v) {
		return nil
	}

	return v
}

func (s *sim) drawFields(n int) []field {
	taken := map[string]bool{}

	var fs []field

	for i := 0; i < n; i++ {
		name := s.fieldName(taken)

		if s.t.Bool(3, 4) {
			fs = append(fs, field{isAttr: true, attr: world.AttrSpec{Name: name, Kind: s.t.Range(1, 14), Nullable: s.t.Bool(1, 2)}})
		} else {
			fs = append(fs, field{rel: world.RelSpec{Name: name, ToType: "other", ToOne: s.t.Bool(1, 2)}})
		}
	}

	return fs
}

// (names with a separator, so that joining an ID and a name with it is ambiguous)
var fieldNames = []string{"a", "b", "c", "d", "e", "f", "g", "h", "k", "m", "n", "p", "q", "r", "s", "t", "u", "v", "w", "x", "y", "z", "a:b", "b:c", "a.b", "a_b", "A", "owner_id", "paid", "uuid", "identity"}

func (s *sim) fieldName(taken map[string]bool) string {
	for {
		n := fieldNames[s.t.Draw(len(fieldNames))]
		if taken[n] {
			s.fresh++
			n = fmt.Sprintf("%s%d", n, s.fresh)
		}

		if !taken[n] {
			taken[n] = true
			return n
		}
	}
}

func (s *sim) hasID(id string) bool {
	for _, r := range s.m.recs {
		if r.ID == id {
			return true
		}
	}

	return false
}

func (s *sim) takenNames() map[string]bool {
	taken := map[string]bool{}
	for _, f := range s.m.fields {
		taken[f.name()] = true
	}

	return taken
}

func (s *sim) softType(name string, fs []field) (*jsonapi.Type, error) {
	typ := &jsonapi.Type{Name: name}

	for _, f := range fs {
		var err error

		if f.isAttr {
			err = typ.AddAttr(jsonapi.Attr{Name: f.attr.Name, Type: f.attr.Kind, Nullable: f.attr.Nullable})
		} else {
			err = typ.AddRel(jsonapi.Rel{FromType: name, FromName: f.rel.Name, ToOne: f.rel.ToOne, ToType: f.rel.ToType, ToName: f.rel.ToName})
		}

		if err != nil {
			return nil, err
		}
	}

	return typ, nil
}

func (s *sim) allIDs() []string {
	ids := []string{"absent"}
	seen := map[string]bool{"absent": true}

	for _, r := range s.m.recs {
		if !seen[r.ID] {
			seen[r.ID] = true
			ids = append(ids, r.ID)
		}
	}

	return ids
}

func (s *sim) check(after string) *core.Violation {
	clause, input, msg, p := s.m.compare(s.col, s.allIDs(), s.prop != "C19") // C09: filters sort to-many IDs in place; they are sets
	if p != nil {
		return viol(s.prop, "no-panic", p.Func, "read:"+p.Class, "reading the collection after %s panicked: %s", after, p.Value)
	}

	if clause != "" {
		s.t.Logf("  MISMATCH %s: %s", clause, msg)

		if s.prop != "C19" {
			// C09 runs use the store only as a substrate; a store mismatch is C19's business.
			s.st.Inc("probe:store-mismatch-outside-C19")
			if os.Getenv("VERIF_DEBUG_STORE") == "" {
				return nil
			}
		}

		return viol(s.prop, clause, lastOp(after), input, "after %s: %s", after, msg)
	}

	return nil
}

func lastOp(after string) string {
	for i, c := range after {
		if c == '(' {
			return after[:i]
		}
	}

	return after
}

func (s *sim) run() *core.Violation {
	t := s.t
	fs := s.drawFields(t.Range(0, 5))
	name := []string{"things", "t", "a-b"}[t.Draw(3)]

	typ, err := s.softType(name, fs)
	if err != nil {
		panic(core.HarnessBug{Value: "softType: " + err.Error()})
	}

	s.col = &jsonapi.SoftCollection{}
	s.m = &store{typeName: name, fields: fs}

	if p := core.Call(func() { s.col.SetType(typ) }); p != nil {
		return viol(s.prop, "no-panic", p.Func, "settype:"+p.Class, "SetType panicked: %s", p.Value)
	}

	t.Logf("SetType(%s)", s.m.typeSpec().Describe())

	if v := s.check("SetType"); v != nil {
		return v
	}

	maxOps := t.Bound(40, 100)
	if s.prop == "C09" {
		maxOps = t.Bound(14, 40)
	}

	stop := t.Range(3, maxOps)
	every := []int{1, 1, 1, 2, 3, 5}[t.Draw(6)]
	pending := ""

	if every > 1 {
		s.st.Inc("probe:lazy-read-back")
	}

	for i := 0; i < maxOps && t.More(stop); i++ {
		if s.bulkLeft > 0 {
			if s.bulkLeft--; s.bulkLeft == 0 {
				break
			}
		}

		desc, v, skip := s.step()
		if v != nil {
			return v
		}

		if skip {
			continue
		}

		s.nops++
		s.st.Steps++
		pending = desc

		// Range is the store's read path: it is issued whether or not the checker
		// has just read the store back (the model says what the store holds)
		if s.prop == "C09" && len(s.m.recs) >= 1 && t.Bool(1, 3) {
			if v := s.rangeQuery(); v != nil {
				return v
			}
		}

		if s.nops%every != 0 {
			continue
		}

		pending = ""

		if v := s.check(desc); v != nil {
			return v
		}

		if s.prop == "C19" {
			s.st.State(core.HashString(s.m.describe()))
		}
	}

	if pending != "" {
		if v := s.check(pending); v != nil {
			return v
		}
	}

	if s.prop == "C19" && s.nops >= 3 && s.nadds >= 1 {
		s.st.MarkNonTrivial()
	}

	if s.prop == "C09" {
		n := t.Range(1, 3)
		for i := 0; i < n; i++ {
			if v := s.rangeQuery(); v != nil {
				return v
			}
		}
	}

	return nil
}

// drawAddSpec draws the resource handed to Add, relative to the collection's
// current fields.
func (s *sim) drawAddSpec() (*world.ResSpec, string) {
	t := s.t
	ts := &world.TypeSpec{Name: s.m.typeName, Struct: true}

	if t.Bool(1, 4) {
		ts.Name = "elsewhere"
	}

	variant := []string{"same", "same", "narrower", "wider", "conflicting"}[t.Draw(5)]
	cur := s.m.fields

	for _, f := range cur {
		if variant == "narrower" && t.Bool(1, 2) {
			continue
		}

		if f.isAttr {
			ts.Attrs = append(ts.Attrs, f.attr)
		} else {
			ts.Rels = append(ts.Rels, f.rel)
		}
	}

	switch variant {
	case "wider":
		taken := s.takenNames()
		n := t.Range(1, 2)

		for _, f := range s.drawFieldsAvoiding(n, taken) {
			if f.isAttr {
				ts.Attrs = append(ts.Attrs, f.attr)
			} else {
				ts.Rels = append(ts.Rels, f.rel)
			}
		}
	case "conflicting":
		if len(ts.Attrs)+len(ts.Rels) == 0 {
			variant = "same"
			break
		}

		k := t.Draw(len(ts.Attrs) + len(ts.Rels))
		if k < len(ts.Attrs) {
			a := ts.Attrs[k]

			switch t.Draw(3) {
			case 0:
				a.Nullable = !a.Nullable
				ts.Attrs[k] = a
			case 1:
				a.Kind = a.Kind%14 + 1
				ts.Attrs[k] = a
			default: // becomes a relationship of that name
				ts.Attrs = append(ts.Attrs[:k:k], ts.Attrs[k+1:]...)
				ts.Rels = append(ts.Rels, world.RelSpec{Name: a.Name, ToType: "other", ToOne: t.Bool(1, 2)})
			}
		} else {
			k -= len(ts.Attrs)
			r := ts.Rels[k]

			if t.Bool(1, 2) {
				r.ToOne = !r.ToOne
				ts.Rels[k] = r
			} else { // becomes an attribute of that name
				ts.Rels = append(ts.Rels[:k:k], ts.Rels[k+1:]...)
				ts.Attrs = append(ts.Attrs, world.AttrSpec{Name: r.Name, Kind: []int{world.KString, world.KBytes, world.KInt}[t.Draw(3)], Nullable: t.Bool(1, 3)})
			}
		}
	}

	id := ""

	if !s.unique && len(s.m.recs) > 0 && t.Bool(1, 5) {
		id = s.m.recs[t.Draw(len(s.m.recs))].ID
		s.st.Inc("probe:add-duplicate-id")
	} else {
		s.nextID++
		id = fmt.Sprintf("%s%d", []string{"r", "R", "é", "0"}[t.Draw(4)], s.nextID)

		// an ID that extends an earlier one by a separator and a letter (unique all the same)
		if len(s.m.recs) > 0 && t.Bool(1, 8) {
			ext := s.m.recs[t.Draw(len(s.m.recs))].ID + []string{":a", ".a", "_a", ":b"}[t.Draw(4)]
			if ext != "" && !s.hasID(ext) {
				id = ext
			}
		}

		if !s.unique && t.Bool(1, 12) {
			id = ""
		}
	}

	return world.DrawResSpec(t, ts, id), variant
}

func (s *sim) drawFieldsAvoiding(n int, taken map[string]bool) []field {
	var fs []field

	for i := 0; i < n; i++ {
		name := s.fieldName(taken)

		if s.t.Bool(3, 4) {
			fs = append(fs, field{isAttr: true, attr: world.AttrSpec{Name: name, Kind: s.t.Range(1, 14), Nullable: s.t.Bool(1, 2)}})
		} else {
			fs = append(fs, field{rel: world.RelSpec{Name: name, ToType: "other", ToOne: s.t.Bool(1, 2)}})
		}
	}

	return fs
}

// step performs one operation on the real collection and on the model.
func (s *sim) step() (desc string, v *core.Violation, skip bool) {
	t := s.t

	if (s.bulkLeft == 0 && t.Bool(1, 120)) || (s.bulkLeft > 0 && len(s.m.recs) >= 33 && t.Bool(1, 3)) {
		// a bulk phase: grow the collection well past 32 elements, or drain it to a
		// quarter, in one step (backing-array growth / shrink paths). A big store
		// makes every step expensive: the run ends ten steps after the first phase.
		grow := s.bulkLeft == 0 && (len(s.m.recs) < 33 || t.Bool(1, 2))

		if s.bulkLeft == 0 {
			s.bulkLeft = 10
		}

		if grow {
			n := t.Range(30, 45)

			for i := 0; i < n; i++ {
				rs, _ := s.drawAddSpec()

				var res jsonapi.Resource

				if p := core.Call(func() {
					typ, err := rs.Type.SoftType()
					if err != nil {
						panic(core.HarnessBug{Value: "SoftType: " + err.Error()})
					}

					res = rs.Soft(typ)
					s.col.Add(res)
				}); p != nil {
					return "bulk Add", viol(s.prop, "no-panic", p.Func, "bulk-add:"+p.Class, "Add panicked during a bulk phase: %s", p.Value), false
				}

				s.m.add(rs)
				s.nadds++
			}

			s.st.Inc("probe:bulk-add-phase")
			t.Logf("bulk phase: %d resources added, %d stored", n, len(s.m.recs))

			return "bulk Add", nil, false
		}

		target := len(s.m.recs) / 4

		for len(s.m.recs) > target {
			id := s.m.recs[t.Draw(len(s.m.recs))].ID

			if p := core.Call(func() { s.col.Remove(id) }); p != nil {
				return "bulk Remove", viol(s.prop, "no-panic", p.Func, "bulk-remove:"+p.Class, "Remove panicked during a bulk phase: %s", p.Value), false
			}

			s.m.remove(id)
		}

		s.st.Inc("probe:bulk-drain-phase")
		t.Logf("bulk phase: drained to %d stored", len(s.m.recs))

		return "bulk Remove", nil, false
	}

	switch op := t.Draw(20); {
	case op < 8: // Add
		rs, variant := s.drawAddSpec()
		wrapped := t.Bool(1, 3)

		var res jsonapi.Resource

		p := core.Call(func() {
			if wrapped {
				res = rs.Wrapped()
			} else {
				typ, err := rs.Type.SoftType()
				if err != nil {
					panic(core.HarnessBug{Value: "SoftType: " + err.Error()})
				}

				res = rs.Soft(typ)
			}
		})
		if p != nil {
			return "", viol(s.prop, "no-panic", p.Func, "materialise:"+p.Class, "building %s panicked: %s", rs.Describe(), p.Value), false
		}

		desc = fmt.Sprintf("Add(%s %s %s)", variant, map[bool]string{true: "wrapped", false: "soft"}[wrapped], rs.Describe())
		t.Logf("%s", desc)
		s.st.Inc("op:Add")
		s.st.Inc("probe:add-" + variant)

		if wrapped {
			s.st.Inc("probe:add-wrapped")
		}

		nf := len(s.m.fields)

		if p := core.Call(func() { s.col.Add(res) }); p != nil {
			return desc, viol(s.prop, "no-panic", p.Func, "add-"+variant+":"+p.Class, "%s panicked: %s", desc, p.Value), false
		}

		s.m.add(rs)
		s.nadds++

		if len(s.m.fields) > nf && len(s.m.recs) > 1 {
			s.st.Inc("probe:field-added-after-store")
		}

		s.handles = append(s.handles, handle{res: res, ts: rs.Type})

		return "Add(" + variant + ")", nil, false
	case op < 11: // Remove
		id := "absent"
		kind := "absent"

		if len(s.m.recs) > 0 && t.Bool(5, 6) {
			k := t.Draw(len(s.m.recs))
			id = s.m.recs[k].ID

			switch {
			case k == 0:
				kind = "first"
			case k == len(s.m.recs)-1:
				kind = "last"
			default:
				kind = "middle"
			}

			n := 0

			for _, r := range s.m.recs {
				if r.ID == id {
					n++
				}
			}

			if n > 1 {
				s.st.Inc("probe:remove-duplicate-id")
			}
		}

		desc = fmt.Sprintf("Remove(%q) [%s]", id, kind)
		t.Logf("%s", desc)
		s.st.Inc("op:Remove")
		s.st.Inc("probe:remove-" + kind)

		if p := core.Call(func() { s.col.Remove(id) }); p != nil {
			return desc, viol(s.prop, "no-panic", p.Func, "remove-"+kind+":"+p.Class, "%s panicked: %s", desc, p.Value), false
		}

		s.m.remove(id)

		return "Remove(" + kind + ")", nil, false
	case op < 13: // AddAttr
		taken := s.takenNames()
		a := jsonapi.Attr{Type: t.Range(1, 14), Nullable: t.Bool(1, 2)}
		dup := false

		var attrs []string

		for _, f := range s.m.fields {
			if f.isAttr {
				attrs = append(attrs, f.attr.Name)
			}
		}

		if len(attrs) > 0 && t.Bool(1, 4) {
			a.Name = attrs[t.Draw(len(attrs))]
			dup = true

			s.st.Inc("probe:addattr-duplicate")
		} else {
			a.Name = s.fieldName(taken)
		}

		var err error

		desc = fmt.Sprintf("AddAttr(%q:%s)", a.Name, world.KindName(a.Type, a.Nullable))
		s.st.Inc("op:AddAttr")

		if p := core.Call(func() { err = s.col.AddAttr(a) }); p != nil {
			return desc, viol(s.prop, "no-panic", p.Func, "addattr:"+p.Class, "%s panicked: %s", desc, p.Value), false
		}

		t.Logf("%s -> err=%v", desc, err)

		if err == nil && !dup {
			s.m.addField(field{isAttr: true, attr: world.AttrSpec{Name: a.Name, Kind: a.Type, Nullable: a.Nullable}})

			if len(s.m.recs) > 0 {
				s.st.Inc("probe:field-added-after-store")
			}
		}

		return "AddAttr", nil, false
	case op < 14: // AddRel
		taken := s.takenNames()
		r := jsonapi.Rel{FromType: s.m.typeName, ToType: "other", ToOne: t.Bool(1, 2)}
		dup := false

		var rels []string

		for _, f := range s.m.fields {
			if !f.isAttr {
				rels = append(rels, f.rel.Name)
			}
		}

		if len(rels) > 0 && t.Bool(1, 4) {
			r.FromName = rels[t.Draw(len(rels))]
			dup = true
		} else {
			r.FromName = s.fieldName(taken)
		}

		var err error

		desc = fmt.Sprintf("AddRel(%q one=%v)", r.FromName, r.ToOne)
		s.st.Inc("op:AddRel")

		if p := core.Call(func() { err = s.col.AddRel(r) }); p != nil {
			return desc, viol(s.prop, "no-panic", p.Func, "addrel:"+p.Class, "%s panicked: %s", desc, p.Value), false
		}

		t.Logf("%s -> err=%v", desc, err)

		if err == nil && !dup {
			s.m.addField(field{rel: world.RelSpec{Name: r.FromName, ToType: r.ToType, ToOne: r.ToOne}})

			if len(s.m.recs) > 0 {
				s.st.Inc("probe:field-added-after-store")
			}
		}

		return "AddRel", nil, false
	case op < 15: // SetType again
		if s.prop == "C09" {
			return "", nil, true
		}

		var fs []field

		for _, f := range s.m.fields {
			if t.Bool(3, 4) {
				fs = append(fs, f)
			}
		}

		taken := s.takenNames()
		fs = append(fs, s.drawFieldsAvoiding(t.Range(0, 2), taken)...)
		name := []string{"things", "t", "renamed"}[t.Draw(3)]

		typ, err := s.softType(name, fs)
		if err != nil {
			panic(core.HarnessBug{Value: "softType: " + err.Error()})
		}

		s.st.Inc("op:SetType")

		if len(s.m.recs) > 0 {
			s.st.Inc("probe:settype-nonempty")
		}

		if p := core.Call(func() { s.col.SetType(typ) }); p != nil {
			return "SetType", viol(s.prop, "no-panic", p.Func, "settype:"+p.Class, "SetType panicked: %s", p.Value), false
		}

		s.m.setFields(name, fs)
		desc = fmt.Sprintf("SetType(%s) on %d records", s.m.typeSpec().Describe(), len(s.m.recs))
		t.Logf("%s", desc)

		if len(s.m.recs) > 0 {
			return "SetType(non-empty)", nil, false
		}

		return "SetType(empty)", nil, false
	default: // later Set on a caller's handle
		if len(s.handles) == 0 {
			return "", nil, true
		}

		h := s.handles[t.Draw(len(s.handles))]
		nf := len(h.ts.Attrs) + len(h.ts.Rels)

		var (
			fname string
			val   interface{}
		)

		switch k := t.Draw(nf + 1); {
		case k == nf:
			fname, val = "id", "changed-by-caller"
		case k < len(h.ts.Attrs):
			a := h.ts.Attrs[k]
			fname, val = a.Name, world.DrawValue(t, a.Kind, a.Nullable, false)
		default:
			r := h.ts.Rels[k-len(h.ts.Attrs)]
			fname, val = r.Name, world.DrawRelValue(t, r.ToOne)
		}

		desc = fmt.Sprintf("caller.Set(%q, %s)", fname, world.Show(val))
		t.Logf("%s", desc)
		s.st.Inc("op:caller.Set")
		s.st.Inc("probe:caller-set-after-add")

		if p := core.Call(func() { h.res.Set(fname, val) }); p != nil {
			return desc, viol(s.prop, "no-panic", p.Func, "caller-set:"+p.Class, "%s panicked: %s", desc, p.Value), false
		}

		return "caller.Set", nil, false
	}
}

var _ = model.Rec{}
