package e4store

import (
	"fmt"
	"reflect"
	"sort"
	"strings"

	"github.com/mfcochauxlaberge/jsonapi"

	"verifsim/core"
	"verifsim/model"
	"verifsim/world"
)

const p09 = "C09"

// prevPage remembers a page a query returned, to re-read it after later queries.
type prevPage struct {
	col jsonapi.Collection
	ids []string
	q   string
}

// toFilter materialises a filter spec as the library's Filter. Values are
// cloned: the library sorts ID lists in place.
func toFilter(f *model.FilterSpec) *jsonapi.Filter {
	if f == nil {
		return nil
	}

	if f.Op == "and" || f.Op == "or" {
		kids := make([]*jsonapi.Filter, len(f.Kids))
		for i, k := range f.Kids {
			kids[i] = toFilter(k)
		}

		return &jsonapi.Filter{Op: f.Op, Val: kids}
	}

	return &jsonapi.Filter{Field: f.Field, Op: f.Op, Val: world.CloneValue(f.Val)}
}

var cmpOps = []string{"=", "!=", "<", "<=", ">", ">="}

// drawFilter draws a well-typed filter tree over the store's fields.
func (s *sim) drawFilter(depth int) *model.FilterSpec {
	t := s.t

	if depth < 3 && t.Bool(1, 4) {
		f := &model.FilterSpec{Op: []string{"and", "or"}[t.Draw(2)]}
		n := t.Range(0, 3)

		for i := 0; i < n; i++ {
			f.Kids = append(f.Kids, s.drawFilter(depth+1))
		}

		s.st.Inc("probe:filter-and-or")

		return f
	}

	if len(s.m.fields) == 0 {
		return &model.FilterSpec{Op: "and"}
	}

	fd := s.m.fields[t.Draw(len(s.m.fields))]
	f := &model.FilterSpec{Field: fd.name()}

	// a value: either one a record holds (so that equality hits) or a fresh one
	pick := func() interface{} {
		if len(s.m.recs) > 0 && t.Bool(1, 2) {
			return world.CloneValue(s.m.recs[t.Draw(len(s.m.recs))].Vals[fd.name()])
		}

		if fd.isAttr {
			return world.DrawValue(t, fd.attr.Kind, fd.attr.Nullable, false)
		}

		return world.DrawRelValue(t, fd.rel.ToOne)
	}

	switch {
	case fd.isAttr:
		f.Op = cmpOps[t.Draw(len(cmpOps))]
		f.Val = pick()

		if fd.attr.Nullable && world.IsNull(f.Val) {
			// records hold typed nil pointers; keep the filter value typed as well
			f.Val = typedNil(fd.attr.Kind)
			s.st.Inc("probe:filter-nil-operand")
		}

		if fd.attr.Kind == world.KString && !fd.attr.Nullable && t.Bool(1, 5) {
			f.Op = "in"
			f.Val = []string{fmt.Sprint(world.Deref(pick())), "zz"}
		}

		if fd.attr.Kind == world.KBytes && f.Op != "=" && f.Op != "!=" {
			s.st.Inc("probe:filter-bytes-order")
		}
	case fd.rel.ToOne:
		if t.Bool(1, 3) {
			f.Op = "in"
			f.Val = []string{pick().(string), "1", "a"}
		} else {
			f.Op = cmpOps[t.Draw(len(cmpOps))]
			f.Val = pick()
		}
	default:
		if t.Bool(1, 2) {
			f.Op = "has"
			f.Val = world.PlainIDs[t.Draw(len(world.PlainIDs))]

			if ids, ok := pick().([]string); ok && len(ids) > 0 {
				f.Val = ids[0]
			}
		} else {
			f.Op = []string{"=", "!=", "<", ">"}[t.Draw(4)]
			v, _ := pick().([]string)
			f.Val = append([]string{}, v...)
		}
	}

	isCmp := false

	for _, o := range cmpOps {
		if f.Op == o {
			isCmp = true
		}
	}

	// an unknown operator, with a value of the field's type
	if isCmp && t.Bool(1, 25) {
		f.Op = "~"
		s.st.Inc("probe:filter-unknown-op")
	}

	return f
}

func typedNil(kind int) interface{} {
	return reflect.Zero(world.GoType(kind, true)).Interface()
}

// twin builds a collection holding the model's records as wrapped structs.
func (s *sim) twin(kind string, order []int) (jsonapi.Collection, *core.Panic) {
	ts := s.m.typeSpec()

	var col jsonapi.Collection

	p := core.Call(func() {
		switch kind {
		case "resources":
			col = &jsonapi.Resources{}
		default:
			col = jsonapi.WrapCollection(world.NewResSpec(ts).Wrapped())
		}

		for _, i := range order {
			rs := s.m.resSpec(ts, s.m.recs[i]).Clone()

			if core.HashString(rs.ID)%4 == 1 {
				// created empty, added, and only then given its ID and values through the
				// caller's handle (a collection of wrappers holds the wrappers themselves)
				w := world.NewResSpec(ts).Wrapped()
				col.Add(w)
				w.SetID(rs.ID)

				for _, f := range ts.Fields() {
					w.Set(f, world.CloneValue(rs.Vals[f]))
				}

				continue
			}

			col.Add(rs.Wrapped())
		}
	})

	return col, p
}

func idsOf(c jsonapi.Collection) []string {
	ids := make([]string, c.Len())
	for i := range ids {
		ids[i], _ = c.At(i).Get("id").(string)
	}

	return ids
}

// rangeQuery issues one Range query against the current store state.
func (s *sim) rangeQuery() *core.Violation {
	t := s.t
	n := len(s.m.recs)

	// which collection
	kind := []string{"softcollection", "resources", "wrappercollection"}[t.Draw(3)]
	order := make([]int, n)

	for i := range order {
		order[i] = i
	}

	var col jsonapi.Collection = s.col

	if kind != "softcollection" {
		var p *core.Panic

		col, p = s.twin(kind, order)
		if p != nil {
			return viol(p09, "no-panic", p.Func, "build-twin:"+p.Class, "building the %s twin panicked: %s", kind, p.Value)
		}
	}

	s.st.Inc("probe:range-on-" + map[string]string{"softcollection": "softcollection", "resources": "resources-of-wrappers", "wrappercollection": "wrappercollection"}[kind])

	// ids
	var ids []string

	if t.Bool(1, 3) {
		for _, r := range s.m.recs {
			if t.Bool(1, 2) {
				ids = append(ids, r.ID)
			}
		}

		if t.Bool(1, 3) {
			ids = append(ids, "absent")
		}

		if len(ids) > 0 {
			s.st.Inc("probe:ids-subset")
		}
	}

	// filter
	var fs *model.FilterSpec

	if t.Bool(2, 3) {
		fs = s.drawFilter(0)
	}

	// rules
	var rules []string

	var attrs []field

	for _, f := range s.m.fields {
		if f.isAttr {
			attrs = append(attrs, f)
		}
	}

	nr := t.Draw(5)
	hasID := false

	for i := 0; i < nr; i++ {
		r := "id"

		if len(attrs) > 0 && t.Bool(4, 5) {
			a := attrs[t.Draw(len(attrs))].attr
			r = a.Name

			switch {
			case a.Kind == world.KUint64 || a.Kind == world.KUint:
				s.st.Inc("probe:sort-by-uint64")
			case a.Kind == world.KBytes:
				s.st.Inc("probe:sort-by-bytes")
			}

			if a.Nullable {
				for _, rec := range s.m.recs {
					if world.IsNull(rec.Vals[a.Name]) {
						s.st.Inc("probe:sort-nil-present")
						break
					}
				}
			}
		} else {
			hasID = true
		}

		if t.Bool(1, 3) {
			r = "-" + r
		}

		rules = append(rules, r)
	}

	if nr == 0 {
		hasID = true // the default rule is id
	}

	if !hasID {
		s.st.Inc("probe:sort-ties-without-id")
	}

	// page geometry
	size := uint([]int{0, 1, 2, 3, n, n + 1}[t.Draw(6)])
	num := uint(t.Draw(4))

	// "no pagination" is commonly asked for with a huge size (number*size stays below 2^63)
	if t.Bool(1, 12) {
		size = []uint{1 << 40, 1 << 62, 1<<63 - 1, 1 << 31}[t.Draw(4)]
		num = uint(t.Draw(2))

		if size > 1<<62 {
			num = 0
		}

		s.st.Inc("probe:huge-page-size")
	}

	if t.Bool(1, 30) && size > 0 {
		num = uint(1<<62) / size // number*size stays below 2^63
	}

	if size == 0 {
		s.st.Inc("probe:size-zero")
	}

	// reference
	var matches []*model.Rec

	for _, r := range s.m.recs {
		sel := len(ids) == 0

		for _, id := range ids {
			if id == r.ID {
				sel = true
			}
		}

		if sel && (fs == nil || fs.Allowed(r)) {
			matches = append(matches, r)
		}
	}

	if uint64(num)*uint64(size) >= uint64(len(matches)) && len(matches) > 0 {
		s.st.Inc("probe:page-beyond-end")
	}

	q := fmt.Sprintf("Range(%s of %d, ids=%q, filter=%s, sort=%q, size=%d, number=%d)", kind, n, ids, fs.Describe(), rules, size, num)

	// the input's members and order before the call: from the model for the store
	// itself (reading it would make every stored resource tidy its lazy state just
	// before the query), from the collection for the freshly built twins
	var before []string

	if kind == "softcollection" {
		for _, r := range s.m.recs {
			before = append(before, r.ID)
		}
	} else {
		before = idsOf(col)
	}

	var lastRes jsonapi.Collection

	// one filter object for all the calls of this query: a caller builds its filter
	// once and pages through the result with it
	lib := toFilter(fs)

	call := func(c jsonapi.Collection, sz, nm uint) (page []string, isNil bool, p *core.Panic) {
		p = core.Call(func() {
			res := jsonapi.Range(c, append([]string{}, ids...), lib, append([]string{}, rules...), sz, nm)
			// nil, or a nil pointer wrapped in the interface (it would pass a comparison with
			// nil and break at the first write through it)
			if res == nil || (reflect.ValueOf(res).Kind() == reflect.Ptr && reflect.ValueOf(res).IsNil()) {
				isNil = true
				return
			}

			lastRes = res
			page = idsOf(res)
		})

		return page, isNil, p
	}

	// a page returned earlier must still hold what it held, whatever was asked since
	if s.prev != nil {
		var now []string

		if p := core.Call(func() { now = idsOf(s.prev.col) }); p != nil {
			return viol(p09, "no-panic", p.Func, "reread-earlier-page:"+p.Class, "reading a page returned earlier panicked: %s", p.Value)
		}

		if strings.Join(now, "\x00") != strings.Join(s.prev.ids, "\x00") {
			return viol(p09, "result-stable", "Range", "earlier-page", "a page returned by %s\n    held %q and holds %q after a later Range call", s.prev.q, s.prev.ids, now)
		}

		s.st.Inc("probe:earlier-page-reread")
	}

	page, isNil, p := call(col, size, num)
	s.st.Inc("op:Range")
	s.st.Steps++

	cls := queryClass(s, fs, rules, kind)

	if p != nil {
		t.Logf("%s -> PANIC %s", q, p.Value)
		return viol(p09, "no-panic", p.Func, cls+":"+p.Class, "%s panicked: %s\n    store: %s", q, p.Value, s.m.describe())
	}

	t.Logf("%s -> %q (reference matches %d)", q, page, len(matches))
	s.st.State(core.HashString(q + s.m.describe()))

	if isNil {
		return viol(p09, "non-nil-result", "Range", cls, "%s returned a nil collection", q)
	}

	if n >= 2 && (len(matches) > 0 || (fs != nil && len(matches) < n)) {
		s.st.MarkNonTrivial()
	}

	// pageCheck compares one returned page with the reference; a wrong page is
	// diagnosed: is it exactly what "rules on uint64, *uint64 and *[]byte
	// attributes are skipped" would give for that kind of collection? Then that
	// is the input class (one specific defect), whatever else the query contains.
	pageCheck := func(kind string, page []string, clause, what string) *core.Violation {
		msg := model.CheckPage(matches, rules, uint64(num)*uint64(size), uint64(size), page)
		if msg == "" {
			return nil
		}

		skipped := false

		hyp := func(x, y *model.Rec) int {
			rs := rules
			if len(rs) == 0 {
				rs = []string{"id"}
			}

			for _, r := range rs {
				f := s.m.field(strings.TrimPrefix(r, "-"))
				if f != nil && f.isAttr && ((f.attr.Kind == world.KUint64) || (f.attr.Kind == world.KBytes && f.attr.Nullable)) {
					skipped = true

					// Values held by wrapped structs still get "nil first" from the
					// generic nil test that precedes the per-type cases.
					nx, ny := world.IsNull(x.Vals[f.attr.Name]), world.IsNull(y.Vals[f.attr.Name])
					if kind != "softcollection" && nx != ny {
						c := 1
						if nx {
							c = -1
						}

						if strings.HasPrefix(r, "-") {
							c = -c
						}

						return c
					}

					continue
				}

				if c := model.CompareRecs(x, y, []string{r}); c != 0 {
					return c
				}
			}

			return 0
		}

		c := cls
		if model.CheckPageCmp(matches, hyp, "", uint64(num)*uint64(size), uint64(size), page) == "" && skipped {
			c = "rules-on-uint64-or-nullable-bytes-attributes-are-skipped"
			clause = "page-equals-reference"
		}

		return viol(p09, clause, "Range", c, "%s%s\n    returned %q: %s\n    reference order (id breaking ties): %q\n    store: %s",
			q, what, page, msg, model.SortedIDs(matches, rules), s.m.describe())
	}

	if v := pageCheck(kind, page, "page-equals-reference", ""); v != nil {
		return v
	}

	first := lastRes

	if after := idsOf(col); strings.Join(after, "\x00") != strings.Join(before, "\x00") {
		return viol(p09, "input-untouched", "Range", kind, "%s changed the input collection: %q -> %q", q, before, after)
	}

	// consecutive pages partition the matches
	if size >= 1 && size <= 3 && len(matches) <= 12 {
		var all []string

		for pg := uint(0); pg < 14; pg++ {
			pp, _, p := call(col, size, pg)
			if p != nil {
				return viol(p09, "no-panic", p.Func, cls+":"+p.Class, "%s (page %d) panicked: %s", q, pg, p.Value)
			}

			if len(pp) == 0 {
				break
			}

			all = append(all, pp...)
		}

		want := make([]string, len(matches))
		for i, m := range matches {
			want[i] = m.ID
		}

		got := append([]string{}, all...)
		sort.Strings(want)
		sort.Strings(got)
		s.st.Inc("probe:pages-partition-checked")

		if strings.Join(got, "\x00") != strings.Join(want, "\x00") {
			return viol(p09, "pages-partition", "Range", cls, "%s: pages of size %d concatenate to %q but the matching resources are %q", q, size, all, want)
		}
	}

	// the same result for every initial order when the rules include id
	if hasID && n >= 2 && t.Bool(1, 2) {
		perm := core.NewRng(t.Seed64()).Perm(n)

		pcol, p := s.twin("resources", perm)
		if p != nil {
			return viol(p09, "no-panic", p.Func, "build-twin:"+p.Class, "building a permuted twin panicked: %s", p.Value)
		}

		pp, _, p := call(pcol, size, num)
		if p != nil {
			return viol(p09, "no-panic", p.Func, cls+":"+p.Class, "%s on a permuted collection panicked: %s", q, p.Value)
		}

		s.st.Inc("probe:permuted-order-checked")

		// with id among the rules the order is total, so "the same result for every
		// initial order" means: the permuted collection's page is the reference page too
		if v := pageCheck("resources", pp, "order-independent-with-id", fmt.Sprintf(" on the same records held as wrapped structs in order %v", perm)); v != nil {
			return v
		}

		if strings.Join(pp, "\x00") != strings.Join(page, "\x00") {
			return viol(p09, "order-independent-with-id", "Range", cls, "%s returned %q, and %q for the same records in order %v", q, page, pp, perm)
		}
	}

	// The caller re-targets the filter object it already has: every "in" list is
	// replaced by another list of the same length (the next batch of IDs), and the
	// same object is used for another query on the same collection.
	if fs != nil && lib != nil && t.Bool(1, 3) {
		changed := 0

		var walk func(f *model.FilterSpec, l *jsonapi.Filter)

		walk = func(f *model.FilterSpec, l *jsonapi.Filter) {
			if f.Op == "and" || f.Op == "or" {
				kids, _ := l.Val.([]*jsonapi.Filter)
				for i, k := range f.Kids {
					if i < len(kids) {
						walk(k, kids[i])
					}
				}

				return
			}

			old, ok := f.Val.([]string)
			if f.Op != "in" || !ok {
				return
			}

			neu := make([]string, len(old))

			for i := range neu {
				neu[i] = fmt.Sprintf("other%d", i)

				if len(s.m.recs) > 0 && t.Bool(2, 3) {
					if v := world.Deref(s.m.recs[t.Draw(len(s.m.recs))].Vals[f.Field]); v != nil {
						neu[i] = fmt.Sprint(v)
					}
				}
			}

			f.Val = neu
			l.Val = append([]string{}, neu...)
			changed++
		}

		walk(fs, lib)

		if changed > 0 {
			s.st.Inc("probe:filter-object-retargeted-and-reused")

			var matches2 []*model.Rec

			for _, r := range s.m.recs {
				sel := len(ids) == 0

				for _, id := range ids {
					if id == r.ID {
						sel = true
					}
				}

				if sel && fs.Allowed(r) {
					matches2 = append(matches2, r)
				}
			}

			q2 := fmt.Sprintf("%s, then the same filter object re-targeted to %s", q, fs.Describe())

			page2, _, p := call(col, size, num)
			if p != nil {
				return viol(p09, "no-panic", p.Func, cls+":"+p.Class, "%s panicked: %s", q2, p.Value)
			}

			t.Logf("%s -> %q (reference matches %d)", q2, page2, len(matches2))

			if msg := model.CheckPage(matches2, rules, uint64(num)*uint64(size), uint64(size), page2); msg != "" {
				// (rules on uint64-family attributes: the known finding concerns the order only;
				// membership is what a stale filter changes)
				got := append([]string{}, page2...)
				sort.Strings(got)

				okMember := true

				in2 := map[string]bool{}
				for _, m := range matches2 {
					in2[m.ID] = true
				}

				for _, id := range got {
					if !in2[id] {
						okMember = false
					}
				}

				if !okMember || (uint64(num)*uint64(size) == 0 && uint64(size) >= uint64(len(matches2)) && len(got) != len(matches2)) {
					return viol(p09, "page-equals-reference", "Range", cls+":filter-object-reused", "%s returned %q: %s\n    store: %s", q2, page2, msg, s.m.describe())
				}
			}
		}
	}

	s.prev = &prevPage{col: first, ids: page, q: q}

	// a page is a collection too: ranging over it must leave it alone
	if first != nil && len(page) >= 2 && t.Bool(1, 3) {
		var again []string

		if p := core.Call(func() {
			_ = jsonapi.Range(first, nil, toFilter(fs), []string{"-id"}, 1, 0)
			again = idsOf(first)
		}); p != nil {
			return viol(p09, "no-panic", p.Func, "range-over-page:"+p.Class, "Range over a page returned earlier panicked: %s", p.Value)
		}

		s.st.Inc("probe:range-over-earlier-page")

		if strings.Join(again, "\x00") != strings.Join(page, "\x00") {
			return viol(p09, "input-untouched", "Range", "page-as-input", "Range over the page %q returned by %s changed it to %q", page, q, again)
		}
	}

	return nil
}

// queryClass tags a query for signatures: the kinds involved in sorting and
// filtering and the collection kind.
func queryClass(s *sim, fs *model.FilterSpec, rules []string, kind string) string {
	var parts []string

	for _, r := range rules {
		r = strings.TrimPrefix(r, "-")
		if f := s.m.field(r); f != nil && f.isAttr {
			parts = append(parts, "sort-"+world.KindName(f.attr.Kind, f.attr.Nullable))
		}
	}

	var walk func(f *model.FilterSpec)

	walk = func(f *model.FilterSpec) {
		if f == nil {
			return
		}

		for _, k := range f.Kids {
			walk(k)
		}

		if fd := s.m.field(f.Field); fd != nil && f.Op != "and" && f.Op != "or" {
			if fd.isAttr {
				parts = append(parts, "filter-"+world.KindName(fd.attr.Kind, fd.attr.Nullable)+"-"+f.Op)
			} else {
				parts = append(parts, fmt.Sprintf("filter-rel-one=%v-%s", fd.rel.ToOne, f.Op))
			}
		}
	}

	walk(fs)

	sort.Strings(parts)

	uniq := parts[:0]

	for i, p := range parts {
		if i == 0 || p != parts[i-1] {
			uniq = append(uniq, p)
		}
	}

	if len(uniq) > 3 {
		uniq = uniq[:3]
	}

	k := "soft"
	if kind != "softcollection" {
		k = "wrapped"
	}

	return k + ":" + strings.Join(uniq, ",")
}
