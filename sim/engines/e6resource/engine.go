// Package e6resource is engine E6: a SoftResource and a Wrapper of one generated
// type driven side by side by a seeded history of Set/Get calls (C17), and
// copies / new instances mutated on one side while the other is watched (C18).
package e6resource

import (
	"fmt"
	"reflect"

	"github.com/mfcochauxlaberge/jsonapi"

	"verifsim/core"
	"verifsim/world"
)

// Engine is E6.
type Engine struct{}

// Name implements core.Engine.
func (Engine) Name() string { return "E6-resource" }

// Runs implements core.Engine.
func (Engine) Runs(prop, tier string) int {
	quick := map[string]int{"C17": 50000, "C18": 80000}[prop]
	if tier == "thorough" {
		return quick * 40
	}

	return quick
}

// Describe implements core.Engine.
func (Engine) Describe(prop string) core.Description {
	d := core.Description{
		Level: "exploration",
		Real: []string{
			"jsonapi.SoftResource (Set Get SetID Attrs Rels GetType AddAttr AddRel RemoveField Copy New)",
			"jsonapi.Wrapper around run-time reflect.StructOf struct types (Wrap Set Get Attrs Rels GetType Copy New)",
			"jsonapi.Type (AddAttr AddRel RemoveAttr RemoveRel New Copy), jsonapi.BuildType, jsonapi.Equal / EqualStrict, jsonapi.MarshalResource, jsonapi.Filter.IsAllowed",
		},
		Stub: []string{"reference resource model (field -> last value set, else the kind's zero)"},
	}

	switch prop {
	case "C17":
		d.Rule = "one run = one generated type (1..10 attributes over the 28 kinds, 0..4 relationships) realised as a SoftResource and as a Wrapper, a seeded history of 1..40 well-typed Set calls (boundary-biased values, typed and untyped nil, nil and empty lists, Set on id) applied to both in lock step and to the model, full read-back after every call, then equality-helper laws on pairs derived from the history; " +
			"non-trivial = at least 3 Set calls and one equality pair evaluated; distinct = distinct event-log hash"
		d.Assumptions = []string{
			"nil and empty byte strings, nil and empty ID lists, typed and untyped nil of a nullable attribute are the same value (the statement's parenthesis)",
			"only 'differs => not equal' is demanded of Equal/EqualStrict, never the converse; 'differs' means a different type name, field-name set, canonical field value (to-many as sets) or ID",
			"struct-backed types are reflect.StructOf types without methods",
		}
		d.Probes = []string{"set-untyped-nil", "set-typed-nil", "set-nil-list", "set-id", "equal-pair-renamed-field", "equal-pair-renamed-type", "equal-pair-value", "equal-pair-id", "equal-cross-impl", "re-added-removed-field", "set-slice-handed-over-before", "equal-pair-join-collision"}
	case "C18":
		d.Rule = "one run = one generated resource (soft or wrapped, to-many lists and byte strings biased non-empty), a Copy / New / Type.Copy of it, then 1..20 mutations each applied to one side chosen per step (Set, type edits, MarshalResource with all relationship data, Filter '=' on a to-many, writes through slices obtained from Get) while the other side's full observation is compared with its snapshot from just before the step; " +
			"non-trivial = at least 2 mutations of which one goes through a shared-state candidate (slice write, marshal, filter, type edit); distinct = distinct event-log hash"
		d.Assumptions = []string{
			"pointees of nullable scalar attributes are not mutated (the statement lists slices only)",
			"immediately after Copy, source and copy must agree on type name, field definitions, ID and every value (nil/empty equivalences as in C17)",
		}
		d.Probes = []string{"mutate-slice-write-ids", "mutate-slice-write-bytes", "mutate-slice-write-ptr-bytes", "mutate-marshal", "mutate-filter", "mutate-type-edit", "mutate-set", "copy-of-wrapped", "copy-of-soft", "new-of-wrapped", "new-of-soft", "type-copy", "copy-of-copy", "mutate-type-edit-via-GetType", "mutate-append-through-get", "soft-of-struct-built-type"}
	}

	if prop == "C18" {
		d.Rule += "; for Type.Copy, what New() of the other type makes is compared before and after every type edit"
		d.Probes = append(d.Probes, "new-of-the-other-type-after-a-type-edit")
	}

	if prop == "C17" {
		d.Rule += "; in half of the runs a third twin, Wrap given a struct value instead of a pointer; types may have no attribute at all"
		d.Probes = append(d.Probes, "twin-wrapped-from-struct-value", "type-with-relationships-only")
	}

	return d
}

func viol(prop, clause, site, input, format string, a ...interface{}) *core.Violation {
	return &core.Violation{Property: prop, Clause: clause, Site: site, Input: input, Message: fmt.Sprintf(format, a...)}
}

// drawType draws one type; the relationships point to itself or to a second
// type name (targets need not exist for anything C17/C18 exercise).
func drawType(t *core.Tape, minAttrs int) *world.TypeSpec {
	style := world.NamesPlain
	if t.Bool(1, 4) {
		style = world.NamesExotic
	}

	s := world.DrawSchema(t, world.SchemaOptions{MinTypes: 1, MaxTypes: 2, MinAttrs: minAttrs, MaxAttrs: 10, MaxRels: 4, Names: style, ForceStruct: 1, TwoWay: true, TagOptions: true})

	return s.Types[0]
}

// Run implements core.Engine.
func (Engine) Run(prop string, t *core.Tape, st *core.Stats) *core.Violation {
	var v *core.Violation

	switch prop {
	case "C17":
		v = runC17(t, st)
	case "C18":
		v = runC18(t, st)
	}

	if v != nil && !st.Fail(v) {
		return nil
	}

	return v
}

type twin struct {
	name string
	res  jsonapi.Resource
}

func runC17(t *core.Tape, st *core.Stats) *core.Violation {
	const P = "C17"

	if t.Bool(1, 5) {
		return runC17Soft(t, st)
	}

	ts := drawType(t, 0)
	t.Logf("%s", ts.Describe())

	var (
		softT, structT jsonapi.Type
		err1, err2     error
		soft, wrapped  jsonapi.Resource
	)

	if p := core.Call(func() {
		softT, err1 = ts.SoftType()
		structT, err2 = ts.Build()
	}); p != nil {
		return viol(P, "no-panic", p.Func, "build-type:"+p.Class, "building type %s panicked: %s", ts.Describe(), p.Value)
	}

	if err1 != nil || err2 != nil {
		st.Inc("probe:type-refused")
		t.Logf("type refused: %v / %v", err1, err2)

		return nil
	}

	if p := core.Call(func() {
		soft = softT.New()
		wrapped = structT.New()
	}); p != nil {
		return viol(P, "no-panic", p.Func, "new:"+p.Class, "Type.New of %s panicked: %s", ts.Describe(), p.Value)
	}

	model := world.NewResSpec(ts)
	twins := []twin{{"soft", soft}, {"wrapped", wrapped}}

	// a third twin in half of the runs: Wrap given a struct value instead of a
	// pointer (it works on a copy of its own then)
	if t.Bool(1, 2) {
		var byValue jsonapi.Resource

		if p := core.Call(func() { byValue = jsonapi.Wrap(reflect.New(ts.GoStruct()).Elem().Interface()) }); p != nil {
			return viol(P, "no-panic", p.Func, "wrap-struct-value:"+p.Class, "Wrap of a struct value of %s panicked: %s", ts.Describe(), p.Value)
		}

		twins = append(twins, twin{"wrapped-struct-value", byValue})

		st.Inc("probe:twin-wrapped-from-struct-value")
	}

	if len(ts.Attrs) == 0 && len(ts.Rels) > 0 {
		st.Inc("probe:type-with-relationships-only")
	}

	check := func(when string) *core.Violation {
		want := model.ExpectedObservation(false)

		for _, tw := range twins {
			var got string

			if p := core.Call(func() { got = world.Observe(tw.res).String(false) }); p != nil {
				return viol(P, "no-panic", p.Func, "read:"+p.Class, "reading the %s resource %s panicked: %s", tw.name, when, p.Value)
			}

			if got != want {
				t.Logf("  model: %s", want)
				t.Logf("  %s: %s", tw.name, got)

				return viol(P, "read-back", tw.name, diffClass(ts, model, tw.res), "%s resource differs from the model %s\n    model: %s\n    %s: %s", tw.name, when, want, tw.name, got)
			}
		}

		return nil
	}

	if v := check("when freshly created"); v != nil {
		v.Clause = "fresh-resource"
		return v
	}

	nset := 0
	maxOps := t.Bound(40, 100)
	stop := t.Range(3, maxOps)
	readEvery := []int{1, 1, 1, 2, 4}[t.Draw(5)]
	handed := map[string]interface{}{}

	for i := 0; i < maxOps && t.More(stop); i++ {
		var (
			field string
			val   interface{}
			desc  string
		)

		nf := len(ts.Attrs) + len(ts.Rels)

		switch k := t.Draw(nf + 1); {
		case k == nf:
			field, val = "id", world.DrawID(t)
			if t.Bool(1, 6) {
				val = "" // an empty ID is a string like any other
			}

			model.ID = val.(string)
			desc = "id"

			st.Inc("probe:set-id")
		case k < len(ts.Attrs):
			a := ts.Attrs[k]
			field = a.Name
			val = world.DrawValue(t, a.Kind, a.Nullable, true)
			model.Vals[field] = world.CloneValue(val)
			desc = world.KindName(a.Kind, a.Nullable)

			if val == nil {
				st.Inc("probe:set-untyped-nil")
			} else if world.IsNull(val) {
				st.Inc("probe:set-typed-nil")
			}
		default:
			r := ts.Rels[k-len(ts.Attrs)]
			field = r.Name
			val = world.DrawRelValue(t, r.ToOne)
			model.Vals[field] = world.CloneValue(val)
			desc = map[bool]string{true: "to-one", false: "to-many"}[r.ToOne]

			if ids, ok := val.([]string); ok && ids == nil {
				st.Inc("probe:set-nil-list")
			}
		}

		// re-use the slice handed over last time for this Go type (see below)?
		reuse := false

		switch val.(type) {
		case []string, []byte:
			if prev, ok := handed[fmt.Sprintf("0:%T", val)]; ok && t.Bool(1, 4) {
				reuse = true
				val = world.CloneValue(prev) // the model holds what that slice holds now
				model.Vals[field] = world.CloneValue(val)

				st.Inc("probe:set-slice-handed-over-before")
			}
		}

		t.Logf("Set(%q, %s) [%s]", field, world.Show(val), desc)
		st.Inc("op:Set")
		st.Steps++

		for ti, tw := range twins {
			arg := world.CloneValue(val)

			// now and then the caller hands over a slice it has already handed over for
			// another field (same backing array): legal, and the two fields must still
			// read what was set on each
			key := fmt.Sprintf("%d:%T", ti, val)

			switch val.(type) {
			case []string, []byte:
				if prev, ok := handed[key]; ok && reuse {
					arg = prev
				} else {
					handed[key] = arg
				}
			}

			if p := core.Call(func() { tw.res.Set(field, arg) }); p != nil {
				return viol(P, "no-panic", p.Func, "set:"+desc+":"+p.Class, "%s.Set(%q, %s) panicked: %s", tw.name, field, world.Show(val), p.Value)
			}
		}

		nset++

		if nset%readEvery != 0 {
			continue
		}

		if v := check(fmt.Sprintf("after Set(%q, %s)", field, world.Show(val))); v != nil {
			return v
		}

		st.State(core.HashString(model.Describe()))
	}

	if v := check("at the end of the history"); v != nil {
		return v
	}

	if v := freshFromUsedTypes(t, st, ts, softT, twins); v != nil {
		return v
	}

	// Equality helpers on pairs derived from the history.
	npairs, v := equalityLaws(t, st, ts, model, twins)
	if v != nil {
		return v
	}

	if nset >= 3 && npairs >= 1 {
		st.MarkNonTrivial()
	}

	return nil
}

// freshFromUsedTypes: "a freshly created resource of a type has that type's
// name, fields and all zero values" also holds for types that have been used:
// the type a resource with a history reports (GetType), and a type derived from
// one that has already made resources (Copy, another name, one more attribute).
func freshFromUsedTypes(t *core.Tape, st *core.Stats, ts *world.TypeSpec, softT jsonapi.Type, twins []twin) *core.Violation {
	const P = "C17"

	blank := world.NewResSpec(ts).ExpectedObservation(false)

	for _, tw := range twins {
		var got string

		if p := core.Call(func() {
			typ := tw.res.GetType()
			got = world.Observe(typ.New()).String(false)
		}); p != nil {
			return viol(P, "no-panic", p.Func, "new-from-used-type:"+p.Class, "GetType().New() on the %s resource panicked: %s", tw.name, p.Value)
		}

		st.Inc("probe:new-from-the-type-of-a-used-resource")

		if got != blank {
			return viol(P, "fresh-resource", tw.name, "new-from-type-of-used-resource", "a resource made by the type the %s resource reports is not a blank resource of that type\n    want: %s\n    got:  %s", tw.name, blank, got)
		}
	}

	// derived soft type
	dts := cloneType(ts)
	dts.Struct = false
	dts.Name = ts.Name + "-derived"
	extra := world.AttrSpec{Name: freshName(ts, "extra"), Kind: t.Range(1, 14), Nullable: t.Bool(1, 2)}
	dts.Attrs = append(dts.Attrs, extra)

	var (
		got  string
		aerr error
	)

	if p := core.Call(func() {
		d := softT.Copy()
		d.Name = dts.Name
		aerr = d.AddAttr(jsonapi.Attr{Name: extra.Name, Type: extra.Kind, Nullable: extra.Nullable})

		if aerr == nil {
			got = world.Observe(d.New()).String(false)
		}
	}); p != nil {
		return viol(P, "no-panic", p.Func, "new-from-derived-type:"+p.Class, "New() of a type derived from a used type panicked: %s", p.Value)
	}

	if aerr != nil {
		return nil
	}

	st.Inc("probe:new-from-a-type-derived-from-a-used-type")

	if want := world.NewResSpec(dts).ExpectedObservation(false); got != want {
		return viol(P, "fresh-resource", "soft", "new-from-derived-type", "a resource made by a type derived (Copy, renamed, one attribute added) from a type that has already made resources is not a blank resource of the derived type\n    want: %s\n    got:  %s", want, got)
	}

	return nil
}

// diffClass names the kind of the first field that differs, for signatures.
func diffClass(ts *world.TypeSpec, model *world.ResSpec, r jsonapi.Resource) string {
	var cls string

	p := core.Call(func() {
		o := world.Observe(r)

		if o.TypeName != ts.Name {
			cls = "type-name"
			return
		}

		if o.ID != model.ID {
			cls = "id"
			return
		}

		for _, a := range ts.Attrs {
			if o.Vals[a.Name] != world.Canon(model.Vals[a.Name]) {
				cls = "attr-" + world.KindName(a.Kind, a.Nullable)
				return
			}
		}

		for _, rel := range ts.Rels {
			if o.Vals[rel.Name] != world.Canon(model.Vals[rel.Name]) {
				cls = map[bool]string{true: "to-one", false: "to-many"}[rel.ToOne]
				return
			}
		}

		cls = "structure"
	})
	if p != nil {
		return "unreadable"
	}

	return cls
}

// runC17Soft: a soft resource whose type is edited between Set calls
// (RemoveField, AddAttr, AddRel — also re-adding a removed name, possibly with
// another kind) and that is read back only now and then, so that values kept
// for removed fields are not cleaned up by the checker's own reads.
func runC17Soft(t *core.Tape, st *core.Stats) *core.Violation {
	const P = "C17"

	orig := drawType(t, 1)
	ts := cloneType(orig)
	ts.Struct = false
	t.Logf("%s (soft only, type edits)", ts.Describe())

	var (
		softT jsonapi.Type
		err   error
		soft  jsonapi.Resource
	)

	if p := core.Call(func() {
		softT, err = ts.SoftType()
		if err == nil {
			soft = softT.New()
		}
	}); p != nil {
		return viol(P, "no-panic", p.Func, "build-type:"+p.Class, "building type %s panicked: %s", ts.Describe(), p.Value)
	}

	if err != nil {
		st.Inc("probe:type-refused")
		return nil
	}

	sr, ok := soft.(*jsonapi.SoftResource)
	if !ok {
		return viol(P, "fresh-resource", "Type.New", "soft", "Type.New of a type without NewFunc returned %T, not a *SoftResource", soft)
	}

	model := world.NewResSpec(ts)
	every := []int{1, 2, 3, 5}[t.Draw(4)]
	removed := []string{}
	nset, nedit := 0, 0

	check := func(when string) *core.Violation {
		want := model.ExpectedObservation(false)

		var got string

		if p := core.Call(func() { got = world.Observe(sr).String(false) }); p != nil {
			return viol(P, "no-panic", p.Func, "read:"+p.Class, "reading the soft resource %s panicked: %s", when, p.Value)
		}

		if got != want {
			t.Logf("  model: %s", want)
			t.Logf("  soft:  %s", got)

			return viol(P, "read-back", "soft", "after-type-edit", "soft resource differs from the model %s\n    model: %s\n    soft:  %s", when, want, got)
		}

		return nil
	}

	maxOps := t.Bound(30, 80)
	stop := t.Range(3, maxOps)
	last := "when freshly created"

	for i := 0; i < maxOps && t.More(stop); i++ {
		nf := len(ts.Attrs) + len(ts.Rels)

		switch op := t.Draw(10); {
		case op < 4 && nf > 0: // Set
			k := t.Draw(nf)

			var (
				field string
				val   interface{}
			)

			if k < len(ts.Attrs) {
				a := ts.Attrs[k]
				field, val = a.Name, world.DrawValue(t, a.Kind, a.Nullable, true)
			} else {
				r := ts.Rels[k-len(ts.Attrs)]
				field, val = r.Name, world.DrawRelValue(t, r.ToOne)
			}

			model.Vals[field] = world.CloneValue(val)
			last = fmt.Sprintf("after Set(%q, %s)", field, world.Show(val))
			arg := world.CloneValue(val)

			if p := core.Call(func() { sr.Set(field, arg) }); p != nil {
				return viol(P, "no-panic", p.Func, "set:"+p.Class, "Set(%q, %s) panicked: %s", field, world.Show(val), p.Value)
			}

			nset++
			st.Inc("op:Set")
		case op < 6 && nf > 0: // RemoveField
			k := t.Draw(nf)

			var name string

			if k < len(ts.Attrs) {
				name = ts.Attrs[k].Name
				ts.Attrs = append(ts.Attrs[:k:k], ts.Attrs[k+1:]...)
			} else {
				k -= len(ts.Attrs)
				name = ts.Rels[k].Name
				ts.Rels = append(ts.Rels[:k:k], ts.Rels[k+1:]...)
			}

			delete(model.Vals, name)
			removed = append(removed, name)
			last = fmt.Sprintf("after RemoveField(%q)", name)

			if p := core.Call(func() { sr.RemoveField(name) }); p != nil {
				return viol(P, "no-panic", p.Func, "remove-field:"+p.Class, "RemoveField(%q) panicked: %s", name, p.Value)
			}

			nedit++
			st.Inc("op:RemoveField")
		case op < 9: // AddAttr / AddRel, preferably re-using a removed name
			name := fmt.Sprintf("n%d", t.Draw(4))
			if len(removed) > 0 && t.Bool(2, 3) {
				name = removed[t.Draw(len(removed))]
				st.Inc("probe:re-added-removed-field")
			}

			exists := ts.Attr(name) != nil || ts.Rel(name) != nil

			if t.Bool(2, 3) {
				a := jsonapi.Attr{Name: name, Type: t.Range(1, 14), Nullable: t.Bool(1, 2)}
				last = fmt.Sprintf("after AddAttr(%q:%s)", name, world.KindName(a.Type, a.Nullable))

				if p := core.Call(func() { sr.AddAttr(a) }); p != nil {
					return viol(P, "no-panic", p.Func, "add-attr:"+p.Class, "AddAttr(%q) panicked: %s", name, p.Value)
				}

				if !exists {
					ts.Attrs = append(ts.Attrs, world.AttrSpec{Name: name, Kind: a.Type, Nullable: a.Nullable})
					model.Vals[name] = world.ZeroValue(a.Type, a.Nullable)
				}
			} else {
				r := jsonapi.Rel{FromType: ts.Name, FromName: name, ToType: "other", ToOne: t.Bool(1, 2)}
				last = fmt.Sprintf("after AddRel(%q one=%v)", name, r.ToOne)

				if p := core.Call(func() { sr.AddRel(r) }); p != nil {
					return viol(P, "no-panic", p.Func, "add-rel:"+p.Class, "AddRel(%q) panicked: %s", name, p.Value)
				}

				if !exists {
					ts.Rels = append(ts.Rels, world.RelSpec{Name: name, ToType: "other", ToOne: r.ToOne})

					if r.ToOne {
						model.Vals[name] = ""
					} else {
						model.Vals[name] = []string{}
					}
				}
			}

			nedit++
			st.Inc("op:AddField")
		default: // structure-only reads must not change anything either
			if p := core.Call(func() { _, _, _ = sr.Attrs(), sr.Rels(), sr.GetType() }); p != nil {
				return viol(P, "no-panic", p.Func, "read-structure:"+p.Class, "Attrs/Rels/GetType panicked: %s", p.Value)
			}

			continue
		}

		t.Logf("%s", last)
		st.Steps++

		if (nset+nedit)%every == 0 {
			if v := check(last); v != nil {
				return v
			}
		}
	}

	if v := check(last + " (final read)"); v != nil {
		return v
	}

	if nset >= 1 && nedit >= 1 {
		st.MarkNonTrivial()
	}

	return nil
}
