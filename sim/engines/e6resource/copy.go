package e6resource

import (
	"fmt"
	"sort"
	"strings"

	"github.com/mfcochauxlaberge/jsonapi"

	"verifsim/core"
	"verifsim/world"
)

const p18 = "C18"

type side struct {
	name string
	res  jsonapi.Resource
	soft bool
	// a Wrapper whose field maps were edited through GetType() no longer matches
	// its struct; what Copy / New of it should look like is not something the
	// property speaks about, so nothing is derived from it any more
	edited bool
}

func observe(r jsonapi.Resource) (s string, p *core.Panic) {
	p = core.Call(func() { s = world.Observe(r).String(false) })
	return s, p
}

func implName(soft bool) string {
	if soft {
		return "soft"
	}

	return "wrapped"
}

// biasedSpec draws a resource whose slices are mostly non-empty, so that
// sharing has something to show.
func biasedSpec(t *core.Tape, ts *world.TypeSpec) *world.ResSpec {
	rs := world.DrawResSpec(t, ts, world.DrawID(t))

	for _, a := range ts.Attrs {
		if a.Kind == world.KBytes && t.Bool(3, 4) {
			b := []byte{3, 1, 2}
			if a.Nullable {
				rs.Vals[a.Name] = &b
			} else {
				rs.Vals[a.Name] = b
			}
		}
	}

	for _, r := range ts.Rels {
		if !r.ToOne && t.Bool(3, 4) {
			rs.Vals[r.Name] = []string{"c", "a", "b"}[:t.Range(2, 3)]
		}
	}

	// an empty value with room left (what ids[:0] or make([]T, 0, n) leave behind)
	if t.Bool(1, 4) {
		for _, a := range ts.Attrs {
			if a.Kind == world.KBytes && !a.Nullable && t.Bool(1, 2) {
				rs.Vals[a.Name] = make([]byte, 0, 8)
			}
		}

		for _, r := range ts.Rels {
			if !r.ToOne && t.Bool(1, 2) {
				rs.Vals[r.Name] = make([]string, 0, 8)
			}
		}
	}

	return rs
}

func runC18(t *core.Tape, st *core.Stats) *core.Violation {
	if t.Bool(1, 6) {
		return runTypeCopy(t, st)
	}

	ts := drawType(t, 0)
	// make sure there is something sliceable most of the time
	if t.Bool(2, 3) {
		ensureSliceFields(t, ts)
	}

	t.Logf("%s", ts.Describe())

	rs := biasedSpec(t, ts)
	srcSoft := t.Bool(1, 2)

	src, p, err := materialise(rs, !srcSoft)

	if srcSoft && p == nil && err == nil && t.Bool(1, 4) {
		// a soft type written by hand: its one-way relationships do not say FromType
		p = core.Call(func() {
			var ht jsonapi.Type

			if ht, err = ts.SoftType(); err == nil {
				for _, r := range ts.Rels {
					if r.ToName == "" {
						jr := ht.Rels[r.Name]
						jr.FromType = ""
						ht.Rels[r.Name] = jr
					}
				}

				src = rs.Soft(ht)
			}
		})

		st.Inc("probe:soft-type-with-relationships-lacking-FromType")
	}

	if srcSoft && p == nil && err == nil && t.Bool(1, 4) {
		// a soft resource whose type was built from a struct (it carries a NewFunc)
		p = core.Call(func() {
			var bt jsonapi.Type

			if bt, err = ts.Build(); err == nil {
				src = rs.Soft(bt)
			}
		})

		st.Inc("probe:soft-of-struct-built-type")
	}

	if p != nil {
		return viol(p18, "no-panic", p.Func, "materialise:"+p.Class, "building %s panicked: %s", rs.Describe(), p.Value)
	}

	if err != nil {
		st.Inc("probe:type-refused")
		return nil
	}

	t.Logf("source (%s): %s", implName(srcSoft), rs.Describe())
	st.State(core.HashString(implName(srcSoft) + rs.Describe()))

	sides := []*side{{name: "source", res: src, soft: srcSoft}}
	interesting := 0
	nmut := 0

	derive := func(from *side) *core.Violation {
		cp, ok := from.res.(jsonapi.Copier)
		if !ok {
			panic(core.HarnessBug{Value: "resource is not a Copier"})
		}

		before, p := observe(from.res)
		if p != nil {
			return viol(p18, "no-panic", p.Func, "read:"+p.Class, "reading the %s panicked: %s", from.name, p.Value)
		}

		isNew := t.Bool(1, 4)

		var d jsonapi.Resource

		if p := core.Call(func() {
			if isNew {
				d = cp.New()
			} else {
				d = cp.Copy()
			}
		}); p != nil {
			return viol(p18, "no-panic", p.Func, map[bool]string{true: "new:", false: "copy:"}[isNew]+implName(from.soft)+":"+p.Class, "%s of the %s (%s) panicked: %s", map[bool]string{true: "New", false: "Copy"}[isNew], from.name, implName(from.soft), p.Value)
		}

		_, dsoft := d.(*jsonapi.SoftResource)
		name := fmt.Sprintf("%s of %s", map[bool]string{true: "new", false: "copy"}[isNew], from.name)
		got, p := observe(d)

		if p != nil {
			return viol(p18, "no-panic", p.Func, "read:"+p.Class, "reading the %s panicked: %s", name, p.Value)
		}

		st.Inc(fmt.Sprintf("probe:%s-of-%s", map[bool]string{true: "new", false: "copy"}[isNew], implName(from.soft)))

		if from.name != "source" {
			st.Inc("probe:copy-of-copy")
		}

		if isNew {
			var want string

			if p := core.Call(func() { want = zeroOf(from.res).ExpectedObservation(false) }); p != nil {
				return viol(p18, "no-panic", p.Func, "read:"+p.Class, "reading the %s panicked: %s", from.name, p.Value)
			}

			t.Logf("%s.New() -> %s", from.name, got)

			if got != want {
				return viol(p18, "new-is-zero-of-same-type", implName(from.soft)+".New", "zero-resource", "New() of the %s is not the zero resource of its type\n    want: %s\n    got:  %s", from.name, want, got)
			}
		} else {
			t.Logf("%s.Copy() -> %s", from.name, got)

			if got != before {
				return viol(p18, "copy-equals-source", implName(from.soft)+".Copy", copyDiffClass(from.res, d), "Copy() of the %s differs from it\n    source: %s\n    copy:   %s", from.name, before, got)
			}

			// "the same ... fields": the definitions of the fields too, member for member
			var sd, cd string

			if p := core.Call(func() { sd, cd = fieldDefs(from.res), fieldDefs(d) }); p == nil && sd != cd {
				return viol(p18, "copy-equals-source", implName(from.soft)+".Copy", "field-definitions", "the fields of the copy are not defined like those of the %s\n    source: %s\n    copy:   %s", from.name, sd, cd)
			}
		}

		sides = append(sides, &side{name: name, res: d, soft: dsoft})

		return nil
	}

	if v := derive(sides[0]); v != nil {
		return v
	}

	maxOps := t.Bound(20, 60)
	stop := t.Range(2, maxOps)

	for i := 0; i < maxOps && t.More(stop); i++ {
		if len(sides) < 4 && t.Bool(1, 8) {
			if from := sides[t.Draw(len(sides))]; !from.edited {
				if v := derive(from); v != nil {
					return v
				}
			}

			continue
		}

		// snapshot the other sides, apply a batch of 1..3 mutations to one side without
		// reading anybody in between (a read makes a soft resource tidy its own state),
		// then compare the others with their snapshots
		k := t.Draw(len(sides))
		target := sides[k]
		snaps := make([]string, len(sides))

		for j, s := range sides {
			if j == k {
				continue
			}

			var p *core.Panic

			snaps[j], p = observe(s.res)
			if p != nil {
				return viol(p18, "no-panic", p.Func, "read:"+p.Class, "reading the %s panicked: %s", s.name, p.Value)
			}
		}

		batch := []int{1, 1, 1, 2, 3}[t.Draw(5)]
		descs, cls := "", ""

		for bi := 0; bi < batch; bi++ {
			desc, c, shared, p := mutate(t, st, ts, target)
			if p != nil {
				return viol(p18, "no-panic", p.Func, "mutate:"+c+":"+p.Class, "%s on the %s (%s) panicked: %s", desc, target.name, implName(target.soft), p.Value)
			}

			if desc == "" {
				continue
			}

			nmut++
			st.Steps++

			if shared {
				interesting++
			}

			if c == "type-edit-via-GetType" && !target.soft {
				target.edited = true
			}

			if descs != "" {
				descs += "; "
			}

			descs += desc
			cls = c

			t.Logf("mutate %s: %s", target.name, desc)
		}

		if descs == "" {
			continue
		}

		for j, s := range sides {
			if j == k {
				continue
			}

			now, p := observe(s.res)
			if p != nil {
				return viol(p18, "no-panic", p.Func, "read:"+p.Class, "reading the %s panicked: %s", s.name, p.Value)
			}

			if now != snaps[j] {
				t.Logf("  %s before: %s", s.name, snaps[j])
				t.Logf("  %s after:  %s", s.name, now)

				return viol(p18, "independent", implName(sides[0].soft)+"-source", cls, "%s applied to the %s changed what is read from the %s\n    before: %s\n    after:  %s", descs, target.name, s.name, snaps[j], now)
			}
		}
	}

	if nmut >= 2 && interesting >= 1 {
		st.MarkNonTrivial()
	}

	return nil
}

func ensureSliceFields(t *core.Tape, ts *world.TypeSpec) {
	add := func(name string, f func()) {
		if ts.Attr(name) == nil && ts.Rel(name) == nil {
			f()
		}
	}

	if t.Bool(1, 2) {
		add("blob", func() { ts.Attrs = append(ts.Attrs, world.AttrSpec{Name: "blob", Kind: world.KBytes}) })
	}

	if t.Bool(1, 2) {
		add("nblob", func() { ts.Attrs = append(ts.Attrs, world.AttrSpec{Name: "nblob", Kind: world.KBytes, Nullable: true}) })
	}

	if t.Bool(2, 3) {
		add("many", func() { ts.Rels = append(ts.Rels, world.RelSpec{Name: "many", ToType: ts.Name, ToOne: false}) })
	}
}

func copyDiffClass(a, b jsonapi.Resource) string {
	cls := "structure"

	core.Call(func() {
		oa, ob := world.Observe(a), world.Observe(b)

		switch {
		case oa.TypeName != ob.TypeName:
			cls = "type-name"
		case oa.ID != ob.ID:
			cls = "id"
		case fmt.Sprint(oa.Attrs) != fmt.Sprint(ob.Attrs) || fmt.Sprint(oa.Rels) != fmt.Sprint(ob.Rels):
			cls = "fields"
		default:
			names := make([]string, 0, len(oa.Vals))
			for k := range oa.Vals {
				names = append(names, k)
			}

			sort.Strings(names)

			for _, k := range names {
				if oa.Vals[k] != ob.Vals[k] {
					cls = "value"
					return
				}
			}
		}
	})

	return cls
}

// mutate applies one mutation to a side. shared reports whether the mutation
// goes through a shared-state candidate.
func mutate(t *core.Tape, st *core.Stats, ts *world.TypeSpec, s *side) (desc, cls string, shared bool, p *core.Panic) {
	r := s.res

	// current fields of the side (a soft side's type may have been edited)
	var attrs map[string]jsonapi.Attr

	var rels map[string]jsonapi.Rel

	if p = core.Call(func() { attrs, rels = r.Attrs(), r.Rels() }); p != nil {
		return "Attrs/Rels", "read", false, p
	}

	var attrNames, relNames []string

	for k := range attrs {
		attrNames = append(attrNames, k)
	}

	for k := range rels {
		relNames = append(relNames, k)
	}

	sort.Strings(attrNames)
	sort.Strings(relNames)

	switch op := t.Draw(10); {
	case op < 2: // Set
		if len(attrNames)+len(relNames) == 0 || t.Bool(1, 6) {
			id := world.DrawID(t)
			p = core.Call(func() { r.Set("id", id) })

			return fmt.Sprintf("Set(\"id\", %q)", id), "set-id", false, p
		}

		k := t.Draw(len(attrNames) + len(relNames))
		if k < len(attrNames) {
			a := attrs[attrNames[k]]
			v := world.DrawValue(t, a.Type, a.Nullable, true)
			p = core.Call(func() { r.Set(a.Name, v) })
			st.Inc("probe:mutate-set")

			return fmt.Sprintf("Set(%q, %s)", a.Name, world.Show(v)), "set", false, p
		}

		rel := rels[relNames[k-len(attrNames)]]
		v := world.DrawRelValue(t, rel.ToOne)
		p = core.Call(func() { r.Set(rel.FromName, v) })
		st.Inc("probe:mutate-set")

		return fmt.Sprintf("Set(%q, %s)", rel.FromName, world.Show(v)), "set", false, p
	case op < 5: // write through a slice obtained from Get
		var cands []string

		for _, n := range attrNames {
			if attrs[n].Type == world.KBytes {
				cands = append(cands, n)
			}
		}

		for _, n := range relNames {
			if !rels[n].ToOne {
				cands = append(cands, n)
			}
		}

		if len(cands) == 0 {
			return "", "", false, nil
		}

		n := cands[t.Draw(len(cands))]

		var done string

		p = core.Call(func() {
			switch v := r.Get(n).(type) {
			case []string:
				if len(v) > 0 {
					i := t.Draw(len(v))
					v[i] = v[i] + "!"
					done = fmt.Sprintf("Get(%q).([]string)[%d] += \"!\"", n, i)
					cls = "slice-write-ids"
				}
			case []byte:
				if len(v) > 0 {
					i := t.Draw(len(v))
					v[i] ^= 0xff
					done = fmt.Sprintf("Get(%q).([]byte)[%d] ^= 0xff", n, i)
					cls = "slice-write-bytes"
				}
			case *[]byte:
				if v != nil && len(*v) > 0 {
					i := t.Draw(len(*v))
					(*v)[i] ^= 0xff
					done = fmt.Sprintf("(*Get(%q).(*[]byte))[%d] ^= 0xff", n, i)
					cls = "slice-write-ptr-bytes"
				}
			}
		})

		if done != "" {
			st.Inc("probe:mutate-" + cls)
		}

		return done, cls, true, p
	case op < 6 && t.Bool(1, 2): // append through a slice obtained from Get, then Set it back
		var cands []string

		for _, n := range attrNames {
			if attrs[n].Type == world.KBytes && !attrs[n].Nullable {
				cands = append(cands, n)
			}
		}

		for _, n := range relNames {
			if !rels[n].ToOne {
				cands = append(cands, n)
			}
		}

		if len(cands) == 0 {
			return "", "", false, nil
		}

		n := cands[t.Draw(len(cands))]
		mark := byte('A' + t.Draw(26))

		p = core.Call(func() {
			switch v := r.Get(n).(type) {
			case []string:
				r.Set(n, append(v, string(mark)))
			case []byte:
				r.Set(n, append(v, mark))
			}
		})
		st.Inc("probe:mutate-append-through-get")

		return fmt.Sprintf("Set(%q, append(Get(%q), %q))", n, n, string(mark)), "append-through-get", true, p
	case op < 7: // marshal with all relationship data: sorts to-many IDs in place
		fields := append(append([]string{}, attrNames...), relNames...)
		relData := map[string][]string{}

		p = core.Call(func() {
			relData[r.GetType().Name] = relNames
			_ = jsonapi.MarshalResource(r, "/api", fields, relData)
		})
		st.Inc("probe:mutate-marshal")

		return "MarshalResource(all fields, all relationship data)", "marshal", true, p
	case op < 8: // filter '=' on a to-many: sorts both lists in place
		var many []string

		for _, n := range relNames {
			if !rels[n].ToOne {
				many = append(many, n)
			}
		}

		if len(many) == 0 {
			return "", "", false, nil
		}

		n := many[t.Draw(len(many))]

		p = core.Call(func() {
			cur, _ := r.Get(n).([]string)
			val := append([]string{}, cur...)
			sort.Sort(sort.Reverse(sort.StringSlice(val)))
			f := &jsonapi.Filter{Field: n, Op: "=", Val: val}
			_ = f.IsAllowed(r)
		})
		st.Inc("probe:mutate-filter")

		return fmt.Sprintf("Filter{%q = <same IDs>}.IsAllowed", n), "filter", true, p
	default: // edit the type
		sr, ok := r.(*jsonapi.SoftResource)
		if !ok || t.Bool(1, 3) {
			// through the Type value GetType returns, which holds the resource's own
			// field maps (the only way to add or remove fields of a Wrapper's type)
			st.Inc("probe:mutate-type-edit-via-GetType")

			var desc string

			p = core.Call(func() {
				typ := r.GetType()

				switch {
				case len(attrNames) > 0 && t.Bool(1, 2):
					n := attrNames[t.Draw(len(attrNames))]
					typ.RemoveAttr(n)
					desc = fmt.Sprintf("GetType().RemoveAttr(%q)", n)
				case len(relNames) > 0 && t.Bool(1, 2):
					n := relNames[t.Draw(len(relNames))]
					typ.RemoveRel(n)
					desc = fmt.Sprintf("GetType().RemoveRel(%q)", n)
				case !ok:
					// a Wrapper cannot gain a field its struct does not have; nothing to do
				default:
					n := fmt.Sprintf("viatype%d", t.Draw(3))
					_ = typ.AddRel(jsonapi.Rel{FromType: typ.Name, FromName: n, ToType: typ.Name, ToOne: true})
					desc = fmt.Sprintf("GetType().AddRel(%q)", n)
				}
			})

			return desc, "type-edit-via-GetType", true, p
		}

		st.Inc("probe:mutate-type-edit")

		switch t.Draw(3) {
		case 0:
			a := jsonapi.Attr{Name: fmt.Sprintf("added%d", t.Draw(3)), Type: t.Range(1, 14), Nullable: t.Bool(1, 2)}
			p = core.Call(func() { sr.AddAttr(a) })

			return fmt.Sprintf("AddAttr(%q:%s)", a.Name, world.KindName(a.Type, a.Nullable)), "type-edit", true, p
		case 1:
			rel := jsonapi.Rel{FromType: ts.Name, FromName: fmt.Sprintf("addedrel%d", t.Draw(3)), ToType: ts.Name, ToOne: t.Bool(1, 2)}
			p = core.Call(func() { sr.AddRel(rel) })

			return fmt.Sprintf("AddRel(%q)", rel.FromName), "type-edit", true, p
		default:
			all := append(append([]string{}, attrNames...), relNames...)
			if len(all) == 0 {
				return "", "", false, nil
			}

			n := all[t.Draw(len(all))]
			p = core.Call(func() { sr.RemoveField(n) })

			return fmt.Sprintf("RemoveField(%q)", n), "type-edit", true, p
		}
	}
}

// fieldDefs renders the definitions of a resource's fields, every member of them.
func fieldDefs(r jsonapi.Resource) string {
	var parts []string

	attrs := r.Attrs()
	for _, a := range attrs {
		parts = append(parts, fmt.Sprintf("attr %+v", a))
	}

	rels := r.Rels()
	for _, rel := range rels {
		parts = append(parts, fmt.Sprintf("rel {FromType:%q FromName:%q ToOne:%v ToType:%q ToName:%q FromOne:%v}", rel.FromType, rel.FromName, rel.ToOne, rel.ToType, rel.ToName, rel.FromOne))
	}

	sort.Strings(parts)

	return strings.Join(parts, "; ")
}

// runTypeCopy: Type.Copy yields an equal, independent type.
func runTypeCopy(t *core.Tape, st *core.Stats) *core.Violation {
	ts := drawType(t, 0)
	ts.Struct = t.Bool(1, 3)

	var (
		typ jsonapi.Type
		err error
	)

	if p := core.Call(func() { typ, err = ts.Build() }); p != nil {
		return viol(p18, "no-panic", p.Func, "build-type:"+p.Class, "building %s panicked: %s", ts.Describe(), p.Value)
	}

	if err != nil {
		st.Inc("probe:type-refused")
		return nil
	}

	st.Inc("probe:type-copy")

	var cp jsonapi.Type

	if p := core.Call(func() { cp = typ.Copy() }); p != nil {
		return viol(p18, "no-panic", p.Func, "type-copy:"+p.Class, "Type.Copy of %s panicked: %s", ts.Describe(), p.Value)
	}

	text := func(x *jsonapi.Type) string {
		var sb []string

		an := make([]string, 0, len(x.Attrs))
		for k := range x.Attrs {
			an = append(an, k)
		}

		sort.Strings(an)

		for _, k := range an {
			a := x.Attrs[k]
			sb = append(sb, fmt.Sprintf("attr[%q]=%q:%s", k, a.Name, world.KindName(a.Type, a.Nullable)))
		}

		rn := make([]string, 0, len(x.Rels))
		for k := range x.Rels {
			rn = append(rn, k)
		}

		sort.Strings(rn)

		for _, k := range rn {
			r := x.Rels[k]
			sb = append(sb, fmt.Sprintf("rel[%q]=%+v", k, r))
		}

		return fmt.Sprintf("type %q %v", x.Name, sb)
	}

	t.Logf("%s ; copy: %s", text(&typ), text(&cp))

	if text(&typ) != text(&cp) {
		return viol(p18, "copy-equals-source", "Type.Copy", "fields", "Type.Copy differs from its source\n    source: %s\n    copy:   %s", text(&typ), text(&cp))
	}

	pair := []*jsonapi.Type{&typ, &cp}
	names := []string{"source type", "copied type"}
	stop := t.Range(2, 10)
	n := 0

	for i := 0; i < 10 && t.More(stop); i++ {
		k := t.Draw(2)
		other := 1 - k
		snap := text(pair[other])

		// what the other type makes must not change either
		fresh := func() (string, *core.Panic) {
			var o string

			p := core.Call(func() { o = world.Observe(pair[other].New()).String(false) })

			return o, p
		}

		madeBefore, pb := fresh()

		var desc string

		p := core.Call(func() {
			switch t.Draw(4) {
			case 0:
				a := jsonapi.Attr{Name: fmt.Sprintf("added%d", t.Draw(3)), Type: t.Range(1, 14)}
				_ = pair[k].AddAttr(a)
				desc = fmt.Sprintf("AddAttr(%q)", a.Name)
			case 1:
				r := jsonapi.Rel{FromType: ts.Name, FromName: fmt.Sprintf("addedrel%d", t.Draw(3)), ToType: ts.Name}
				_ = pair[k].AddRel(r)
				desc = fmt.Sprintf("AddRel(%q)", r.FromName)
			case 2:
				if len(ts.Attrs) > 0 {
					nme := ts.Attrs[t.Draw(len(ts.Attrs))].Name
					pair[k].RemoveAttr(nme)
					desc = fmt.Sprintf("RemoveAttr(%q)", nme)
				}
			default:
				if len(ts.Rels) > 0 {
					nme := ts.Rels[t.Draw(len(ts.Rels))].Name
					pair[k].RemoveRel(nme)
					desc = fmt.Sprintf("RemoveRel(%q)", nme)
				}
			}
		})
		if p != nil {
			return viol(p18, "no-panic", p.Func, "type-edit:"+p.Class, "editing the %s panicked: %s", names[k], p.Value)
		}

		if desc == "" {
			continue
		}

		n++
		st.Steps++
		st.Inc("probe:mutate-type-edit")
		t.Logf("edit %s: %s", names[k], desc)

		if now := text(pair[other]); now != snap {
			return viol(p18, "independent", "Type.Copy", "type-edit", "%s on the %s changed the %s\n    before: %s\n    after:  %s", desc, names[k], names[other], snap, now)
		}

		if pb == nil {
			madeAfter, pa := fresh()
			if pa != nil {
				return viol(p18, "independent", "Type.Copy", "new-after-type-edit:"+pa.Class, "after %s on the %s, New() of the %s panics: %s", desc, names[k], names[other], pa.Value)
			}

			st.Inc("probe:new-of-the-other-type-after-a-type-edit")

			if madeAfter != madeBefore {
				return viol(p18, "independent", "Type.Copy", "new-after-type-edit", "%s on the %s changed what New() of the %s makes\n    before: %s\n    after:  %s", desc, names[k], names[other], madeBefore, madeAfter)
			}
		}
	}

	if n >= 2 {
		st.MarkNonTrivial()
	}

	return nil
}

// zeroOf is the zero resource of r's current type (a soft resource's type may
// have been edited since the run's spec was drawn).
func zeroOf(r jsonapi.Resource) *world.ResSpec {
	ts := &world.TypeSpec{Name: r.GetType().Name}
	attrs, rels := r.Attrs(), r.Rels()

	an := make([]string, 0, len(attrs))
	for k := range attrs {
		an = append(an, k)
	}

	sort.Strings(an)

	for _, k := range an {
		ts.Attrs = append(ts.Attrs, world.AttrSpec{Name: attrs[k].Name, Kind: attrs[k].Type, Nullable: attrs[k].Nullable})
	}

	rn := make([]string, 0, len(rels))
	for k := range rels {
		rn = append(rn, k)
	}

	sort.Strings(rn)

	for _, k := range rn {
		ts.Rels = append(ts.Rels, world.RelSpec{Name: rels[k].FromName, ToType: rels[k].ToType, ToOne: rels[k].ToOne, ToName: rels[k].ToName})
	}

	return world.NewResSpec(ts)
}
