package e6resource

import (
	"github.com/mfcochauxlaberge/jsonapi"

	"verifsim/core"
	"verifsim/world"
)

// materialise builds a resource for spec rs as soft or wrapped.
func materialise(rs *world.ResSpec, wrapped bool) (res jsonapi.Resource, p *core.Panic, err error) {
	p = core.Call(func() {
		if wrapped {
			res = rs.Wrapped()
			return
		}

		var typ jsonapi.Type

		typ, err = rs.Type.SoftType()
		if err != nil {
			return
		}

		res = rs.Soft(typ)
	})

	return res, p, err
}

// equalityLaws evaluates reflexivity, symmetry and "differs => not equal" on
// pairs derived from the run's final state.
func equalityLaws(t *core.Tape, st *core.Stats, ts *world.TypeSpec, model *world.ResSpec, twins []twin) (int, *core.Violation) {
	const P = "C17"

	npairs := 0

	eq := func(strict bool, a, b jsonapi.Resource) (bool, *core.Panic) {
		var r bool

		p := core.Call(func() {
			if strict {
				r = jsonapi.EqualStrict(a, b)
			} else {
				r = jsonapi.Equal(a, b)
			}
		})

		return r, p
	}

	fname := map[bool]string{true: "EqualStrict", false: "Equal"}

	// reflexive
	for _, tw := range twins {
		for _, strict := range []bool{false, true} {
			r, p := eq(strict, tw.res, tw.res)
			if p != nil {
				return npairs, viol(P, "no-panic", p.Func, "equal-reflexive:"+p.Class, "%s(r, r) on the %s resource panicked: %s", fname[strict], tw.name, p.Value)
			}

			st.Inc("op:" + fname[strict])

			if !r {
				return npairs, viol(P, "equal-reflexive", fname[strict], tw.name, "%s(r, r) is false for the %s resource %s", fname[strict], tw.name, model.Describe())
			}
		}
	}

	// symmetric across implementations (same content; the verdict itself is not pinned)
	for _, strict := range []bool{false, true} {
		r1, p1 := eq(strict, twins[0].res, twins[1].res)
		r2, p2 := eq(strict, twins[1].res, twins[0].res)

		if p1 != nil || p2 != nil {
			p := p1
			if p == nil {
				p = p2
			}

			return npairs, viol(P, "no-panic", p.Func, "equal-cross-impl:"+p.Class, "%s(soft, wrapped) panicked: %s", fname[strict], p.Value)
		}

		st.Inc("probe:equal-cross-impl")

		if r1 != r2 {
			return npairs, viol(P, "equal-symmetric", fname[strict], "cross-implementation", "%s(soft, wrapped) = %v but %s(wrapped, soft) = %v for %s", fname[strict], r1, fname[strict], r2, model.Describe())
		}
	}

	// differs => not equal
	for i := 0; i < 4; i++ {
		other := model.Clone()
		kind := ""
		strictOnly := false

		var many *world.RelSpec

		for ri := range ts.Rels {
			if !ts.Rels[ri].ToOne {
				many = &ts.Rels[ri]
			}
		}

		choice := t.Draw(5)
		if choice == 4 && many == nil {
			choice = t.Draw(4)
		}

		if len(ts.Attrs)+len(ts.Rels) == 0 && (choice == 1 || choice == 2) {
			choice = 3 * t.Draw(2) // a type without fields: only its name or the ID can differ
		}

		switch choice {
		case 4: // two ID lists that differ but are equal once joined by a separator
			sep := []string{",", " ", "", "|", "\x00"}[t.Draw(5)]
			p, q, r := "p", "q", "r"
			a := []string{p + sep + q, r}
			b := []string{p, q + sep + r}

			if sep == "" {
				a, b = []string{"pq", "r"}, []string{"p", "qr"}
			}

			// both resources are built afresh: one holds a, the other b
			base := model.Clone()
			base.Vals[many.Name] = a
			other.Vals[many.Name] = b
			kind = "join-collision"

			st.Inc("probe:equal-pair-join-collision")

			for _, wrapped := range []bool{false, true} {
				ra, pa, ea := materialise(base, wrapped)
				rb, pb, eb := materialise(other, !wrapped)

				if pa != nil || pb != nil || ea != nil || eb != nil {
					continue
				}

				for _, strict := range []bool{false, true} {
					r1, p1 := eq(strict, ra, rb)
					r2, p2 := eq(strict, rb, ra)

					if p1 != nil || p2 != nil {
						continue
					}

					npairs++

					if r1 || r2 {
						v := viol(P, "equal-implies-same", fname[strict], kind, "%s holds between resources whose to-many relationship %q holds %q and %q", fname[strict], many.Name, a, b)
						if st.Fail(v) {
							return npairs, v
						}
					}
				}
			}

			continue
		case 0: // another type name, same fields and values
			cts := *ts
			cts.Name = ts.Name + "x"
			cts.Attrs = append([]world.AttrSpec{}, ts.Attrs...)
			cts.Rels = append([]world.RelSpec{}, ts.Rels...)
			other.Type = cloneType(&cts)
			kind = "renamed-type"
		case 1: // one field renamed, same kind, same value
			nf := len(ts.Attrs) + len(ts.Rels)
			k := t.Draw(nf)
			cts := cloneType(ts)

			var old, neu string

			if k < len(ts.Attrs) {
				old = cts.Attrs[k].Name
				neu = freshName(ts, old)
				cts.Attrs[k].Name = neu
			} else {
				old = cts.Rels[k-len(ts.Attrs)].Name
				neu = freshName(ts, old)
				cts.Rels[k-len(ts.Attrs)].Name = neu
			}

			other.Type = cts
			other.Vals[neu] = other.Vals[old]
			delete(other.Vals, old)
			kind = "renamed-field"
		case 2: // one field value changed
			nf := len(ts.Attrs) + len(ts.Rels)
			k := t.Draw(nf)
			changed := false

			for try := 0; try < 8 && !changed; try++ {
				if k < len(ts.Attrs) {
					a := ts.Attrs[k]
					nv := world.DrawValue(t, a.Kind, a.Nullable, false)

					if world.CanonSet(nv) != world.CanonSet(model.Vals[a.Name]) {
						other.Vals[a.Name] = nv
						changed = true
						kind = "value-" + world.KindName(a.Kind, a.Nullable)
					}
				} else {
					r := ts.Rels[k-len(ts.Attrs)]
					nv := world.DrawRelValue(t, r.ToOne)

					if world.CanonSet(nv) != world.CanonSet(model.Vals[r.Name]) {
						other.Vals[r.Name] = nv
						changed = true
						kind = map[bool]string{true: "value-to-one", false: "value-to-many"}[r.ToOne]
					}
				}
			}

			if !changed {
				continue
			}
		default: // another ID
			other.ID = model.ID + "'"
			kind = "id"
			strictOnly = true
		}

		wrapped := t.Bool(1, 2)

		res, p, err := materialise(other, wrapped)
		if p != nil {
			return npairs, viol(P, "no-panic", p.Func, "materialise:"+p.Class, "building %s panicked: %s", other.Describe(), p.Value)
		}

		if err != nil {
			continue
		}

		t.Logf("equality pair (%s, other %s): %s", kind, map[bool]string{true: "wrapped", false: "soft"}[wrapped], other.Describe())

		switch {
		case kind == "renamed-type":
			st.Inc("probe:equal-pair-renamed-type")
		case kind == "renamed-field":
			st.Inc("probe:equal-pair-renamed-field")
		case kind == "id":
			st.Inc("probe:equal-pair-id")
		default:
			st.Inc("probe:equal-pair-value")
		}

		for _, tw := range twins {
			for _, strict := range []bool{false, true} {
				r1, p1 := eq(strict, tw.res, res)
				r2, p2 := eq(strict, res, tw.res)

				if p1 != nil || p2 != nil {
					p := p1
					if p == nil {
						p = p2
					}

					return npairs, viol(P, "no-panic", p.Func, "equal-pair:"+kind+":"+p.Class, "%s on a pair differing in %s panicked: %s", fname[strict], kind, p.Value)
				}

				npairs++

				if r1 != r2 {
					return npairs, viol(P, "equal-symmetric", fname[strict], kind, "%s(a, b) = %v but %s(b, a) = %v\n    a (%s): %s\n    b: %s", fname[strict], r1, fname[strict], r2, tw.name, model.Describe(), other.Describe())
				}

				if r1 && (strict || !strictOnly) {
					v := viol(P, "equal-implies-same", fname[strict], kind, "%s holds between resources that differ in %s\n    a (%s): %s\n    b: %s", fname[strict], kind, tw.name, model.Describe(), other.Describe())
					if st.Fail(v) {
						return npairs, v
					}
					// a listed finding: go on with the remaining pairs
				}
			}
		}
	}

	return npairs, nil
}

func cloneType(ts *world.TypeSpec) *world.TypeSpec {
	return &world.TypeSpec{
		Name: ts.Name, Struct: ts.Struct,
		Attrs: append([]world.AttrSpec{}, ts.Attrs...),
		Rels:  append([]world.RelSpec{}, ts.Rels...),
	}
}

// freshName returns a field name the type does not have, chosen so that the
// sorted position of the renamed field varies (before / after its neighbours).
func freshName(ts *world.TypeSpec, old string) string {
	for _, cand := range []string{old + "2", "0" + old, "zz" + old, "m"} {
		if ts.Attr(cand) == nil && ts.Rel(cand) == nil && cand != "id" {
			return cand
		}
	}

	return old + "_renamed"
}
