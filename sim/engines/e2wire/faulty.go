package e2wire

import (
	"bytes"
	"encoding/base64"
	"encoding/json"
	"fmt"
	"reflect"
	"strings"

	"github.com/mfcochauxlaberge/jsonapi"

	"verifsim/core"
	"verifsim/wire"
	"verifsim/world"
)

const p05 = "C05"

type c05 struct {
	t      *core.Tape
	st     *core.Stats
	spec   *world.SchemaSpec
	schema *jsonapi.Schema
	// first unlisted violation
	v *core.Violation
}

// report records a violation; it returns true when the run must stop.
func (c *c05) report(v *core.Violation) bool {
	if c.st.Fail(v) {
		c.v = v
		return true
	}

	return false // a listed finding: this delivery is over, the run goes on
}

// conform checks a returned resource against the schema.
func (c *c05) conform(r jsonapi.Resource, entry string, partial bool) *core.Violation {
	var v *core.Violation

	p := core.Call(func() {
		tn := r.GetType().Name
		ts := c.spec.Type(tn)

		if ts == nil {
			v = viol(p05, "type-in-schema", entry, "unknown-or-missing-type", "%s returned a resource of type %q, which is not in the schema", entry, tn)
			return
		}

		if _, ok := r.Get("id").(string); !ok {
			v = viol(p05, "id-is-string", entry, "id", "%s returned a resource whose id is %T", entry, r.Get("id"))
			return
		}

		attrs, rels := r.Attrs(), r.Rels()

		check := func(name string, present bool) bool {
			if a := ts.Attr(name); a != nil && present {
				g := r.Get(name)
				if !world.ExactType(g, a.Kind, a.Nullable) {
					v = viol(p05, "attr-type-conforms", entry, world.KindName(a.Kind, a.Nullable), "%s returned attribute %q holding %T, declared %s", entry, name, g, world.KindName(a.Kind, a.Nullable))
					return false
				}
			}

			if rel := ts.Rel(name); rel != nil && present {
				g := r.Get(name)

				if rel.ToOne {
					if _, ok := g.(string); !ok {
						v = viol(p05, "rel-type-conforms", entry, "to-one", "%s returned to-one relationship %q holding %T", entry, name, g)
						return false
					}
				} else if _, ok := g.([]string); !ok {
					v = viol(p05, "rel-type-conforms", entry, "to-many", "%s returned to-many relationship %q holding %T", entry, name, g)
					return false
				}
			}

			return true
		}

		for _, f := range ts.Fields() {
			_, isA := attrs[f]
			_, isR := rels[f]

			if !partial && !isA && !isR && ts.Struct && strings.HasPrefix(f, "later") {
				// an attribute the schema gave a struct-backed type after the struct was
				// written: a wrapped struct cannot hold it, and the statement speaks of the
				// attributes a result holds, not of completeness
				continue
			}

			if !partial && !isA && !isR {
				v = viol(p05, "fields-of-type", entry, "missing-field", "%s returned a %q resource without its field %q", entry, tn, f)
				return
			}

			if !check(f, isA || isR) {
				return
			}
		}

		// no field outside the schema's type
		for _, m := range []map[string]bool{keysA(attrs), keysR(rels)} {
			for _, k := range sortedBoolKeys(m) {
				if ts.Attr(k) == nil && ts.Rel(k) == nil {
					v = viol(p05, "fields-of-type", entry, "extra-field", "%s returned a %q resource with a field %q the schema does not have", entry, tn, k)
					return
				}
			}
		}
	})
	if p != nil {
		return viol(p05, "no-panic", p.Func, "read-result:"+p.Class, "reading the resource returned by %s panicked: %s", entry, p.Value)
	}

	c.st.Inc("probe:result-conformance-checked")

	return v
}

func keysA(m map[string]jsonapi.Attr) map[string]bool {
	o := map[string]bool{}
	for k := range m {
		o[k] = true
	}

	return o
}

func keysR(m map[string]jsonapi.Rel) map[string]bool {
	o := map[string]bool{}
	for k := range m {
		o[k] = true
	}

	return o
}

func sortedBoolKeys(m map[string]bool) []string {
	ks := make([]string, 0, len(m))
	for k := range m {
		ks = append(ks, k)
	}

	for i := 1; i < len(ks); i++ {
		for j := i; j > 0 && ks[j] < ks[j-1]; j-- {
			ks[j], ks[j-1] = ks[j-1], ks[j]
		}
	}

	return ks
}

func isNilish(v interface{}) bool {
	if v == nil {
		return true
	}

	rv := reflect.ValueOf(v)

	switch rv.Kind() {
	case reflect.Ptr, reflect.Interface, reflect.Map, reflect.Slice:
		return rv.IsNil() || (rv.Kind() == reflect.Slice && rv.Len() == 0)
	}

	return false
}

// docResources lists the resources of a returned document.
func docResources(d *jsonapi.Document) []jsonapi.Resource {
	var out []jsonapi.Resource

	switch x := d.Data.(type) {
	case jsonapi.Resource:
		out = append(out, x)
	case jsonapi.Collection:
		for i := 0; i < x.Len(); i++ {
			out = append(out, x.At(i))
		}
	}

	return append(out, d.Included...)
}

// checkDoc applies the safety oracle to an UnmarshalDocument / NewRequest outcome.
func (c *c05) checkDoc(entry, faults string, doc *jsonapi.Document, err error, delivered []byte) *core.Violation {
	if err != nil {
		c.st.Inc("probe:delivery-rejected")

		if doc != nil {
			return viol(p05, "error-xor-result", entry, "doc", "%s returned both an error (%v) and a document\n    delivered: %q", entry, err, clipBytes(delivered))
		}

		return nil
	}

	if doc == nil {
		return viol(p05, "error-xor-result", entry, "doc", "%s returned neither an error nor a document\n    delivered: %q", entry, clipBytes(delivered))
	}

	c.st.Inc("probe:delivery-accepted")

	for _, r := range docResources(doc) {
		if r == nil {
			return viol(p05, "result-well-formed", entry, "nil-resource", "%s returned a document holding a nil resource\n    delivered: %q", entry, clipBytes(delivered))
		}

		if v := c.conform(r, entry, false); v != nil {
			v.Message += fmt.Sprintf("\n    faults: %s\n    delivered: %q", faults, clipBytes(delivered))
			return v
		}
	}

	return nil
}

func runC05(t *core.Tape, st *core.Stats) *core.Violation {
	c := &c05{t: t, st: st}
	c.spec = world.DrawSchema(t, schemaOpts(6))

	var err error

	viaHistory := false

	defer func() {
		if viaHistory {
			st.Inc("probe:schema-built-through-edit-history")
		}
	}()

	if p := core.Call(func() { c.schema, viaHistory, err = c.spec.BuildSchemaAnyHow(t) }); p != nil {
		v := viol(p05, "no-panic", p.Func, "build-schema:"+p.Class, "building the schema panicked: %s", p.Value)
		if st.Fail(v) {
			return v
		}

		return nil
	}

	if err != nil {
		st.Inc("probe:schema-refused")
		return nil
	}

	// swarm: the fault kinds enabled in this run
	var enabled []string

	for _, k := range wire.AllFaults {
		if t.Bool(1, 2) {
			enabled = append(enabled, k)
		}
	}

	if len(enabled) == 0 {
		enabled = []string{wire.AllFaults[t.Draw(len(wire.AllFaults))]}
	}

	mkMsg := func() (*world.DocSpec, []byte) {
		ds := world.DrawDoc(t, c.spec, world.DocOptions{MaxPrimary: 3, MaxIncluded: 2, DistinctIncl: true, Errors: true, AllFields: t.Bool(1, 2)})

		var msg []byte

		p := core.Call(func() {
			doc, u, err := ds.Materialise(c.schema, world.MatOptions{})
			if err != nil {
				return
			}

			msg, _ = jsonapi.MarshalDocument(doc, u)
		})
		if p != nil || msg == nil {
			return ds, nil
		}

		return ds, msg
	}

	ds, msg := mkMsg()
	if msg == nil {
		st.Inc("probe:send-refused")
		return nil
	}

	_, other := mkMsg()
	if other == nil {
		other = msg
	}

	t.Logf("valid message: %s", msg)

	// the data member, for the entry points that take a bare payload
	var top map[string]json.RawMessage

	_ = json.Unmarshal(msg, &top)
	sub := []byte(top["data"])

	if len(sub) == 0 {
		sub = []byte(`{"id":"1","type":"` + c.spec.Types[0].Name + `"}`)
	}

	var topOther map[string]json.RawMessage

	_ = json.Unmarshal(other, &topOther)
	subOther := []byte(topOther["data"])

	if len(subOther) == 0 {
		subOther = sub
	}

	changed := false
	nd := t.Range(1, t.Bound(6, 16))

	for d := 0; d < nd; d++ {
		// the schema is not a constant of the receiver: now and then a type is removed
		// and another one added between two deliveries (same number of types), and the
		// sender, unaware, keeps sending resources of the removed type
		if d > 0 && len(c.spec.Types) > 1 && t.Bool(1, 5) {
			k := t.Draw(len(c.spec.Types))
			gone := c.spec.Types[k].Name
			neu := &world.TypeSpec{Name: fmt.Sprintf("added%d", d), Attrs: []world.AttrSpec{{Name: "v", Kind: world.KString}}}

			var aerr error

			if p := core.Call(func() {
				c.schema.RemoveType(gone)

				var typ jsonapi.Type
				if typ, aerr = neu.SoftType(); aerr == nil {
					aerr = c.schema.AddType(typ)
				}
			}); p != nil || aerr != nil {
				return nil // editing a schema is C14's business
			}

			types := append([]*world.TypeSpec{}, c.spec.Types[:k]...)
			types = append(types, c.spec.Types[k+1:]...)
			c.spec = &world.SchemaSpec{Types: append(types, neu)}

			t.Logf("schema edited: type %q removed, type %q added", gone, neu.Name)
			st.Inc("probe:schema-edited-between-deliveries")
		}

		// ... or a type gets one more attribute (Schema.AddAttr, as a deployment does),
		// and the sender, already updated, sends it: for a soft type a new field like any
		// other; a struct-backed type then says more than its struct can hold
		if d > 0 && t.Bool(1, 6) {
			k := t.Draw(len(c.spec.Types))
			ts := c.spec.Types[k]
			name := fmt.Sprintf("later%d", d)

			var aerr error

			if p := core.Call(func() {
				aerr = c.schema.AddAttr(ts.Name, jsonapi.Attr{Name: name, Type: jsonapi.AttrTypeInt})
			}); p != nil || aerr != nil {
				return nil // editing a schema is C14's business
			}

			{
				if ts.Struct {
					_ = ts.GoStruct() // the struct type is what it was: cached before the spec grows
				}

				edited := *ts
				edited.Attrs = append(append([]world.AttrSpec{}, ts.Attrs...), world.AttrSpec{Name: name, Kind: world.KInt})
				types := append([]*world.TypeSpec{}, c.spec.Types...)
				types[k] = &edited
				c.spec = &world.SchemaSpec{Types: types}
			}

			msg = addAttribute(msg, ts.Name, name, 7)
			sub = addAttribute(sub, ts.Name, name, 7)

			t.Logf("schema edited: attribute %q added to type %q (struct-backed: %v); the sender sends it from now on", name, ts.Name, ts.Struct)
			st.Inc("probe:attribute-added-between-deliveries")

			if ts.Struct {
				st.Inc("probe:attribute-added-to-a-struct-backed-type")
			}
		}

		// 1. the whole message through the transport
		delivered, errAt, desc := c.fault(enabled, msg, other)

		if t.Bool(1, 150) {
			// F10: a very large body (>= 1 MiB): valid JSON padded with white space, a
			// huge string, or a scalar followed by garbage
			big := bytes.Repeat([]byte(" "), 1<<20)

			switch t.Draw(4) {
			case 0:
				delivered, desc = append(append([]byte{}, msg...), big...), "F10-bloat: 1 MiB of trailing white space"
			case 1:
				delivered, desc = append(append([]byte(`"`), bytes.Repeat([]byte("x"), 1<<20)...), '"'), "F10-bloat: one string of 1 MiB"
			case 2:
				delivered, desc = append([]byte("7"), big...), "F10-bloat: a number followed by 1 MiB of white space"
			default:
				delivered, desc = append(append([]byte("null "), bytes.Repeat([]byte("[0,"), 350000)...), ']'), "F10-bloat: null followed by 1 MiB of array text"
			}

			errAt = -1
			st.Inc("fault:F10-bloat")
		}

		if !bytes.Equal(delivered, msg) || errAt >= 0 {
			changed = true
		}

		t.Logf("delivery %d: %s -> %q", d, desc, clipBytes(delivered))
		st.State(core.HashString(string(delivered)))

		method := []string{"POST", "PATCH", "POST", "GET"}[t.Draw(4)]
		dl := drawDelivery(t)
		st.Steps++

		req, rerr, body, p := receive(st, c.schema, method, ds.RawURL(nil), delivered, dl, errAt, core.DrawMapOrder(t), localZones[t.Draw(len(localZones))])

		switch {
		case p != nil:
			if c.report(viol(p05, "no-panic", c.panicSite(p, delivered), p.Class, "NewRequest panicked: %s\n    faults: %s\n    delivered: %q", p.Value, desc, clipBytes(delivered))) {
				return c.v
			}
		case body.ErrFired:
			st.Inc("probe:read-error-propagated")

			if rerr == nil || req != nil {
				if c.report(viol(p05, "read-error-propagated", "NewRequest", "read-error", "the body failed after %d bytes but NewRequest returned request=%v err=%v", errAt, req != nil, rerr)) {
					return c.v
				}
			}
		case rerr != nil && req != nil:
			if c.report(viol(p05, "error-xor-result", "NewRequest", "request", "NewRequest returned both an error (%v) and a request", rerr)) {
				return c.v
			}
		case rerr == nil && req == nil:
			if c.report(viol(p05, "error-xor-result", "NewRequest", "request", "NewRequest returned neither an error nor a request")) {
				return c.v
			}
		case rerr == nil && req.Doc != nil:
			if v := c.checkDoc("NewRequest", desc, req.Doc, nil, delivered); v != nil && c.report(v) {
				return c.v
			}
		}

		if errAt < 0 {
			var doc *jsonapi.Document

			mo := core.DrawMapOrder(t)
			p := core.Call(func() { mo.With(func() { doc, err = jsonapi.UnmarshalDocument(delivered, c.schema) }) })
			st.MapOrder(mo)
			st.Inc("op:UnmarshalDocument")

			if p != nil {
				if c.report(viol(p05, "no-panic", c.panicSite(p, delivered), p.Class, "UnmarshalDocument panicked: %s\n    faults: %s\n    delivered: %q", p.Value, desc, clipBytes(delivered))) {
					return c.v
				}
			} else if v := c.checkDoc("UnmarshalDocument", desc, doc, err, delivered); v != nil && c.report(v) {
				return c.v
			}
		}

		// 2. the bare payload, separately faulted, to the other five entry points
		pl, _, pdesc := c.fault(enabled, sub, subOther)
		if strings.HasPrefix(desc, "F10-bloat") {
			pl, pdesc = delivered, desc
		}

		if !bytes.Equal(pl, sub) {
			changed = true
		}

		t.Logf("payload %d: %s -> %q", d, pdesc, clipBytes(pl))

		if v := c.payload(pl, pdesc); v != nil {
			return v
		}
	}

	if changed {
		st.MarkNonTrivial()
	}

	return nil
}

// fault applies one or two enabled faults.
func (c *c05) fault(enabled []string, msg, other []byte) ([]byte, int, string) {
	t := c.t
	out, errAt, desc := msg, -1, ""
	n := 1

	if t.Bool(1, 4) {
		n = 2
	}

	for i := 0; i < n; i++ {
		k := enabled[t.Draw(len(enabled))]

		var (
			e int
			d string
		)

		out, e, d = wire.Apply(t, k, out, other)
		c.st.Inc("fault:" + k)

		if e >= 0 {
			errAt = e
		}

		if errAt > len(out) {
			errAt = len(out)
		}

		if desc != "" {
			desc += "; "
		}

		desc += k + ": " + d

		if k == wire.FTruncate && bytes.Count(out, []byte(`"`))%2 == 1 {
			c.st.Inc("probe:truncated-inside-string")
		}

		if bytes.Contains(out, []byte("no-such-type")) {
			c.st.Inc("probe:unknown-type-in-body")
		}
	}

	return out, errAt, desc
}

// payload feeds a bare payload to the five payload-level entry points.
func (c *c05) payload(pl []byte, desc string) *core.Violation {
	st := c.st

	type outcome struct {
		name string
		call func() (interface{}, error)
		chk  func(res interface{}) *core.Violation
	}

	outs := []outcome{
		{"UnmarshalResource", func() (interface{}, error) {
			r, err := jsonapi.UnmarshalResource(pl, c.schema)
			if r == nil {
				return nil, err
			}

			return r, err
		}, func(res interface{}) *core.Violation { return c.conform(res.(jsonapi.Resource), "UnmarshalResource", false) }},
		{"UnmarshalPartialResource", func() (interface{}, error) {
			r, err := jsonapi.UnmarshalPartialResource(pl, c.schema)
			if r == nil {
				return nil, err
			}

			return r, err
		}, func(res interface{}) *core.Violation {
			st.Inc("probe:partial-accepted")
			return c.conform(res.(*jsonapi.SoftResource), "UnmarshalPartialResource", true)
		}},
		{"UnmarshalCollection", func() (interface{}, error) {
			col, err := jsonapi.UnmarshalCollection(pl, c.schema)
			if col == nil {
				return nil, err
			}

			return col, err
		}, func(res interface{}) *core.Violation {
			st.Inc("probe:collection-accepted")

			col := res.(jsonapi.Collection)
			for i := 0; i < col.Len(); i++ {
				r := col.At(i)
				if r == nil {
					return viol(p05, "result-well-formed", "UnmarshalCollection", "nil-resource", "UnmarshalCollection returned a collection holding a nil resource")
				}

				if v := c.conform(r, "UnmarshalCollection", false); v != nil {
					return v
				}
			}

			return nil
		}},
		{"UnmarshalIdentifier", func() (interface{}, error) {
			id, err := jsonapi.UnmarshalIdentifier(pl, c.schema)
			if id == (jsonapi.Identifier{}) {
				return nil, err
			}

			return id, err
		}, func(res interface{}) *core.Violation {
			st.Inc("probe:identifier-accepted")

			id := res.(jsonapi.Identifier)
			if c.spec.Type(id.Type) == nil || id.ID == "" {
				return viol(p05, "type-in-schema", "UnmarshalIdentifier", "unknown-or-missing-type", "UnmarshalIdentifier accepted %q/%q", id.Type, id.ID)
			}

			return nil
		}},
		{"UnmarshalIdentifiers", func() (interface{}, error) {
			ids, err := jsonapi.UnmarshalIdentifiers(pl, c.schema)
			if len(ids) == 0 && err != nil {
				return nil, err
			}

			return ids, err
		}, func(res interface{}) *core.Violation {
			for _, id := range res.(jsonapi.Identifiers) {
				if c.spec.Type(id.Type) == nil || id.ID == "" {
					return viol(p05, "type-in-schema", "UnmarshalIdentifiers", "unknown-or-missing-type", "UnmarshalIdentifiers accepted %q/%q", id.Type, id.ID)
				}
			}

			return nil
		}},
	}

	for _, o := range outs {
		var (
			res interface{}
			err error
		)

		mo := core.DrawMapOrder(c.t)
		p := core.Call(func() { mo.With(func() { res, err = o.call() }) })
		st.MapOrder(mo)
		st.Inc("op:" + o.name)

		var v *core.Violation

		switch {
		case p != nil:
			v = viol(p05, "no-panic", c.panicSite(p, pl), p.Class, "%s panicked in %s: %s", o.name, p.Func, p.Value)
		case err != nil && res != nil:
			v = viol(p05, "error-xor-result", o.name, "payload", "%s returned both an error (%v) and a result %v", o.name, err, res)
		case err == nil && res == nil && o.name != "UnmarshalIdentifiers":
			v = viol(p05, "error-xor-result", o.name, "payload", "%s returned neither an error nor a result", o.name)
		case err == nil && res != nil:
			v = o.chk(res)
		}

		if v != nil {
			v.Message += fmt.Sprintf("\n    faults: %s\n    payload: %q", desc, clipBytes(pl))

			if c.report(v) {
				return v
			}
		}
	}

	return nil
}

var _ = isNilish

func clipBytes(b []byte) []byte {
	if len(b) > 4000 {
		return append(append([]byte{}, b[:2000]...), []byte(fmt.Sprintf(" …(%d bytes)… ", len(b)))...)
	}

	return b
}

// addAttribute adds a member to the attributes object of every resource object of
// the given type in a payload (what an updated sender does); the payload is
// returned as it was when it cannot be read.
func addAttribute(payload []byte, typeName, attr string, val interface{}) []byte {
	dec := json.NewDecoder(bytes.NewReader(payload))
	dec.UseNumber()

	var root interface{}
	if dec.Decode(&root) != nil {
		return payload
	}

	var walk func(v interface{}, depth int)

	walk = func(v interface{}, depth int) {
		if depth > 12 {
			return
		}

		switch x := v.(type) {
		case []interface{}:
			for _, e := range x {
				walk(e, depth+1)
			}
		case map[string]interface{}:
			if tn, ok := x["type"].(string); ok && tn == typeName {
				if _, isRes := x["links"]; isRes {
					attrs, ok := x["attributes"].(map[string]interface{})
					if !ok {
						attrs = map[string]interface{}{}
						x["attributes"] = attrs
					}

					attrs[attr] = val
				}
			}

			for _, k := range sortedKeys(x) {
				if k != "attributes" {
					walk(x[k], depth+1)
				}
			}
		}
	}

	walk(root, 0)

	out, err := json.Marshal(root)
	if err != nil {
		return payload
	}

	return out
}

// panicSite is the site class of a panic for signatures. Normally the innermost
// package function. One defect is identified by its input instead, so that it is
// recognised wherever a refactoring moves the code: a bytes attribute whose JSON
// value is not a base64 string. The payload is examined, not the stack.
func (c *c05) panicSite(p *core.Panic, payload []byte) string {
	if (p.Class == "illegal-base64" || p.Class == "json-cannot-unmarshal") && c.hasBadBytesAttr(payload) {
		return "bytes-attribute-not-base64"
	}

	return p.Func
}

// hasBadBytesAttr reports whether some resource object of a schema type in the
// payload gives a bytes attribute a value that is not a base64 string.
func (c *c05) hasBadBytesAttr(payload []byte) bool {
	dec := json.NewDecoder(bytes.NewReader(payload))
	dec.UseNumber()

	var root interface{}
	if dec.Decode(&root) != nil {
		return false
	}

	found := false

	var walk func(v interface{}, depth int)

	walk = func(v interface{}, depth int) {
		if found || depth > 12 {
			return
		}

		switch x := v.(type) {
		case []interface{}:
			for _, e := range x {
				walk(e, depth+1)
			}
		case map[string]interface{}:
			// encoding/json matches member names to struct fields case-insensitively
			// ("tYpe" is the type member, and of several spellings the last one in the
			// text wins): every spelling is looked at.
			var types []*world.TypeSpec

			for _, k := range sortedKeys(x) {
				if tn, ok := x[k].(string); ok && strings.EqualFold(k, "type") {
					if ts := c.spec.Type(tn); ts != nil {
						types = append(types, ts)
					}
				}
			}

			for _, k := range sortedKeys(x) {
				attrs, ok := x[k].(map[string]interface{})
				if !ok || !strings.EqualFold(k, "attributes") {
					continue
				}

				for _, ts := range types {
					for _, a := range ts.Attrs {
						if a.Kind != world.KBytes {
							continue
						}

						val, present := attrs[a.Name]
						if !present || val == nil {
							continue
						}

						s, isStr := val.(string)
						if !isStr {
							found = true
							return
						}

						if _, err := base64.StdEncoding.DecodeString(s); err != nil {
							found = true
							return
						}
					}
				}
			}

			for _, k := range sortedKeys(x) {
				walk(x[k], depth+1)
			}
		}
	}

	walk(root, 0)

	return found
}
