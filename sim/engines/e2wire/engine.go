// Package e2wire is engine E2: a sender marshals a valid message with the real
// MarshalDocument; the message travels as the Body of an http.Request literal
// through the simulated transport; the receiver calls NewRequest and the
// Unmarshal* entry points on what was delivered.
//
// Two configurations, never mixed in one run:
//   - fault-free (fragmentation only): equality oracle — C01 (values) and C02 (documents);
//   - faulty (truncation, read errors, corruption, duplication, loss, reorder,
//     splice, faulty sender): safety oracle only — C05.
package e2wire

import (
	"encoding/json"
	"fmt"
	"net/http"
	"net/url"
	"reflect"
	"sort"
	"strings"
	"time"

	"github.com/mfcochauxlaberge/jsonapi"

	"verifsim/core"
	"verifsim/wire"
	"verifsim/world"
)

// Engine is E2.
type Engine struct{}

// Name implements core.Engine.
func (Engine) Name() string { return "E2-wire" }

// Runs implements core.Engine.
func (Engine) Runs(prop, tier string) int {
	quick := map[string]int{"C01": 240000, "C02": 160000, "C05": 100000}[prop]
	if tier == "thorough" {
		return quick * 40
	}

	return quick
}

// Describe implements core.Engine.
func (Engine) Describe(prop string) core.Description {
	d := core.Description{
		Level: "exploration",
		Real: []string{
			"sender: jsonapi.MarshalDocument (MarshalResource, MarshalCollection, URL.String) on SoftResource / Wrapper (reflect.StructOf) resources",
			"receiver: jsonapi.NewRequest incl. ioutil.ReadAll on the simulated body, NewSimpleURL, NewURL, UnmarshalDocument, UnmarshalResource, UnmarshalPartialResource, UnmarshalCollection, UnmarshalIdentifier, UnmarshalIdentifiers, Attr.UnmarshalToType",
			"the package's map-range loops under the seeded map-order scheduler on both sides",
		},
		Stub: []string{"the transport: an io.ReadCloser delivering seeded fragments (no socket, no net/http server; http.Request is a literal)"},
	}

	switch prop {
	case "C01":
		d.Rule = "fault-free configuration (F1 fragmentation only: reads of 1..k bytes, zero-length reads, final read with data and io.EOF). One run = one seeded schema of soft and struct-backed types and one resource with every field set (boundary-biased values of the 28 kinds, exotic IDs, to-many lists), marshaled with all fields and all relationship data, delivered through NewRequest under seeded map orders on both sides and a per-run time.Local, and decoded again directly with UnmarshalDocument; " +
			"non-trivial = the resource has at least one attribute or relationship; distinct = distinct event-log hash; distinct_model_states counts distinct (kind,value) pairs sent"
		d.Assumptions = []string{
			"the value space is sampled (boundary-biased), not enumerated; what simulation contributes is the delivery path (ReadAll over fragments), map order on both sides and the ambient time zone",
			"a non-nil pointer to a nil byte slice is never generated (outside the domain)",
			"to-many relationships are compared as sets; nil and empty byte strings are the same value",
		}
		d.FaultKinds = []string{"F1-fragmentation", "F1-zero-length-read", "F1-eof-with-data"}
		d.Probes = []string{"impl-soft", "impl-wrapped", "zone-non-utc", "value-uint64-above-2^63", "value-nul-string", "value-zoned-time", "value-empty-bytes", "value-nil-pointer", "receiver-overwrote-pointee", "damaged-delivery-first"}
	case "C02":
		d.Rule = "fault-free configuration (F1 only). One run = one seeded schema and document of any primary-data kind (nil, resource, SoftCollection / Resources / WrapperCollection of 0..5, Identifier, Identifiers) with 0..4 included resources, meta, resource meta, error objects, any prefix and field selection, marshaled, delivered through NewRequest (POST or PATCH) and compared: kind of primary data, resources in order with the selected fields' values, included (type, ID) set with equal values, JSON-equal meta, error objects in order and no data; " +
			"non-trivial = the document carries data with at least one resource, or errors; distinct = distinct event-log hash"
		d.Assumptions = []string{
			"nil and empty maps are equal; meta numbers are values encoding/json's generic model represents exactly; a nil Identifiers slice is not generated",
			"'selected fields' are those the parsed URL lists for the resource's type; relationship values are compared only when their data was requested",
			"included resources have pairwise distinct (type, ID) pairs; the same ID under several types is generated on purpose",
		}
		d.FaultKinds = []string{"F1-fragmentation", "F1-zero-length-read", "F1-eof-with-data"}
		d.Probes = []string{"kind-nil", "kind-resource", "kind-softcollection", "kind-resources", "kind-wrappercollection", "kind-identifier", "kind-identifiers", "with-errors", "with-included", "with-meta", "method-PATCH", "document-reused-with-other-included", "damaged-delivery-first"}
	case "C05":
		d.Rule = "faulty configuration. One run = one seeded schema and valid message, then 1..6 deliveries, each with one or two faults from the run's swarm-chosen subset (F2 truncation biased to structural bytes, F3 read error after k bytes, F4 bit flips / byte substitution, F5 duplication, F6 loss, F7 reorder of a fragment, F8 splice of two messages, F9 faulty sender: a member replaced by another JSON kind / dropped / renamed / duplicated, type replaced by an unknown name); the delivered bytes go to NewRequest and UnmarshalDocument, the (separately faulted) data member to UnmarshalResource, UnmarshalPartialResource, UnmarshalCollection, UnmarshalIdentifier and UnmarshalIdentifiers. Safety oracle only: no panic, error xor result, every returned resource conforms to the schema; " +
			"non-trivial = at least one delivery whose bytes differ from the valid message; distinct = distinct event-log hash"
		d.Assumptions = []string{
			"decides C05 on the byte strings reachable from valid messages by transport and sender faults (including high-rate corruption), not on all byte strings in the abstract",
			"'no result' on error: nil / zero value / empty list",
		}
		d.FaultKinds = append(append([]string{"F1-fragmentation"}, wire.AllFaults...), "F10-bloat")
		d.Probes = []string{"attribute-added-between-deliveries", "attribute-added-to-a-struct-backed-type", "delivery-accepted", "delivery-rejected", "result-conformance-checked", "read-error-propagated", "truncated-inside-string", "unknown-type-in-body", "partial-accepted", "collection-accepted", "identifier-accepted", "schema-edited-between-deliveries"}
	}

	d.Rule += "; in a quarter of the runs the schema is reached through a longer edit history (scaffold types added between the real ones and removed again, an attribute added after its type, temporary fields added and removed) with the same final content"
	d.Probes = append(d.Probes, "schema-built-through-edit-history")

	if prop == "C01" {
		d.Rule += "; now and then the schema's soft type is edited (one attribute removed, one added) while the sender's resource is alive and untouched"
		d.Probes = append(d.Probes, "type-edited-while-resource-alive")
	}

	return d
}

func viol(prop, clause, site, input, format string, a ...interface{}) *core.Violation {
	return &core.Violation{Property: prop, Clause: clause, Site: site, Input: input, Message: fmt.Sprintf(format, a...)}
}

// Run implements core.Engine.
func (Engine) Run(prop string, t *core.Tape, st *core.Stats) *core.Violation {
	var v *core.Violation

	switch prop {
	case "C01":
		v = runC01(t, st)
	case "C02":
		v = runC02(t, st)
	case "C05":
		return runC05(t, st) // handles listed findings itself (keeps delivering after one)
	}

	if v != nil && !st.Fail(v) {
		return nil
	}

	return v
}

func schemaOpts(maxAttrs int) world.SchemaOptions {
	return world.SchemaOptions{MinTypes: 1, MaxTypes: 3, MaxAttrs: maxAttrs, MaxRels: 3, Names: world.NamesPlain, AllowStruct: true, ForceStruct: -1, TwoWay: true}
}

var localZones = []*time.Location{time.UTC, time.FixedZone("IST", 5*3600+30*60), time.FixedZone("PST", -8*3600)}

// delivery describes how the body is fragmented.
type delivery struct {
	seed     uint64
	maxChunk int
	zero     bool
	eofData  bool
}

func drawDelivery(t *core.Tape) delivery {
	return delivery{seed: t.Seed64(), maxChunk: []int{1, 2, 3, 7, 64, 512, 4096}[t.Draw(7)], zero: t.Bool(1, 3), eofData: t.Bool(1, 2)}
}

// receive runs NewRequest on a body delivering data.
func receive(st *core.Stats, schema *jsonapi.Schema, method, rawURL string, data []byte, dl delivery, errAt int, mo *core.MapOrder, loc *time.Location) (req *jsonapi.Request, err error, body *wire.Body, p *core.Panic) {
	u, perr := url.Parse(rawURL)
	if perr != nil {
		panic(core.HarnessBug{Value: "url.Parse: " + perr.Error()})
	}

	body = wire.NewBody(data, dl.seed, dl.maxChunk, dl.zero, dl.eofData, errAt)
	hr := &http.Request{Method: method, URL: u, Body: body}

	prevLocal := time.Local
	time.Local = loc

	defer func() { time.Local = prevLocal }()

	p = core.Call(func() { mo.With(func() { req, err = jsonapi.NewRequest(hr, schema) }) })
	st.MapOrder(mo)
	st.Inc("op:NewRequest")
	st.Add("fault:F1-fragmentation", int64(body.Reads))
	st.Add("fault:F1-zero-length-read", int64(body.ZeroReads))

	if body.EOFData {
		st.Inc("fault:F1-eof-with-data")
	}

	return req, err, body, p
}

// warmUp optionally lets the receiver process (and reject) a damaged copy of the
// message on the same schema first: what a receiver does after an error, or the
// second time it sees a type, must not differ from the first time. The outcome of
// the damaged delivery is C05's business, not judged here.
func warmUp(t *core.Tape, st *core.Stats, schema *jsonapi.Schema, method, rawURL string, msg []byte) {
	if !t.Bool(1, 3) {
		return
	}

	kind := []string{wire.FTruncate, wire.FCorrupt, wire.FSender, wire.FLoss}[t.Draw(4)]
	bad, errAt, _ := wire.Apply(t, kind, msg, msg)
	st.Inc("probe:damaged-delivery-first")

	_, _, _, _ = receive(st, schema, method, rawURL, bad, drawDelivery(t), errAt, core.DrawMapOrder(t), time.UTC)
}

// ---------------------------------------------------------------------------------------------
// C01

func runC01(t *core.Tape, st *core.Stats) *core.Violation {
	const P = "C01"

	so := schemaOpts(8)
	so.TagOptions = true

	spec := world.DrawSchema(t, so)

	var (
		schema *jsonapi.Schema
		err    error
	)

	viaHistory := false

	defer func() {
		if viaHistory {
			st.Inc("probe:schema-built-through-edit-history")
		}
	}()

	if p := core.Call(func() { schema, viaHistory, err = spec.BuildSchemaAnyHow(t) }); p != nil {
		return viol(P, "no-panic", p.Func, "build-schema:"+p.Class, "building the schema panicked: %s", p.Value)
	}

	if err != nil {
		// the generated schema is valid by construction (distinct plain names, existing
		// targets): a refusal is the library's
		st.Inc("probe:schema-refused")
		return viol(P, "valid-input-accepted", "Schema", "build-schema", "the library refuses a schema that is valid by construction (via a longer edit history: %v): %v", viaHistory, err)
	}

	ts := spec.Types[t.Draw(len(spec.Types))]
	rs := world.DrawResSpec(t, ts, world.DrawID(t))
	impl := map[bool]string{true: "wrapped", false: "soft"}[ts.Struct]
	st.Inc("probe:impl-" + impl)
	t.Logf("%s", ts.Describe())
	t.Logf("send (%s) %s", impl, rs.Describe())
	valueProbes(st, rs)

	rawURL := "/" + ts.Name + "/x1"

	var (
		doc *jsonapi.Document
		u   *jsonapi.URL
		msg []byte
	)

	moS := core.DrawMapOrder(t)

	// The sender's resource exists before the request is handled. Now and then the
	// schema's (soft) type is edited while the resource is alive and untouched: one
	// attribute goes, another one comes, so the number of fields stays what it was.
	// The resource is then a resource of the edited type: the dropped attribute is
	// gone and the new one reads its zero value.
	var data jsonapi.Resource

	if p := core.Call(func() { moS.With(func() { data = rs.Clone().Materialise(schema) }) }); p != nil {
		return viol(P, "no-panic", p.Func, "send-"+impl+":"+p.Class, "building %s panicked: %s", rs.Describe(), p.Value)
	}

	if !ts.Struct && len(ts.Attrs) > 0 && t.Bool(1, 6) {
		k := t.Draw(len(ts.Attrs))
		gone := ts.Attrs[k]
		neu := world.AttrSpec{Name: gone.Name + "-2", Kind: t.Range(1, 14), Nullable: t.Bool(1, 2)}

		if ts.Attr(neu.Name) == nil && ts.Rel(neu.Name) == nil {
			var aerr error

			if p := core.Call(func() {
				schema.RemoveAttr(ts.Name, gone.Name)
				aerr = schema.AddAttr(ts.Name, jsonapi.Attr{Name: neu.Name, Type: neu.Kind, Nullable: neu.Nullable})
			}); p != nil {
				return viol(P, "no-panic", p.Func, "edit-type:"+p.Class, "editing type %q panicked: %s", ts.Name, p.Value)
			}

			if aerr != nil {
				st.Inc("probe:schema-refused")
				return nil
			}

			edited := *ts
			edited.Attrs = append([]world.AttrSpec{}, ts.Attrs...)
			edited.Attrs[k] = neu
			ts = &edited

			rs = rs.Clone()
			rs.Type = ts
			delete(rs.Vals, gone.Name)
			rs.Vals[neu.Name] = world.ZeroValue(neu.Kind, neu.Nullable)

			t.Logf("type %q edited while the resource is alive: attribute %q removed, %q (%s) added", ts.Name, gone.Name, neu.Name, world.KindName(neu.Kind, neu.Nullable))
			st.Inc("probe:type-edited-while-resource-alive")
		}
	}

	if p := core.Call(func() {
		moS.With(func() {
			u, err = jsonapi.NewURLFromRaw(schema, rawURL)
			if err != nil {
				return
			}

			doc = &jsonapi.Document{Data: data, RelData: map[string][]string{}}
			for _, r := range ts.Rels {
				doc.RelData[ts.Name] = append(doc.RelData[ts.Name], r.Name)
			}

			msg, err = jsonapi.MarshalDocument(doc, u)
		})
	}); p != nil {
		return viol(P, "no-panic", p.Func, "send-"+impl+":"+p.Class, "marshaling %s panicked: %s", rs.Describe(), p.Value)
	}

	st.MapOrder(moS)
	st.Inc("op:MarshalDocument")

	if err != nil {
		// the URL names the type and nothing else, the resource is well typed: "marshaling
		// the resource" has to succeed for the round trip to exist at all
		st.Inc("probe:send-refused")
		return viol(P, "valid-input-accepted", "NewURLFromRaw/MarshalDocument", impl, "the sender's URL %q or document is refused although valid by construction: %v\n    resource: %s", rawURL, err, rs.Describe())
	}

	t.Logf("message: %s", msg)

	loc := localZones[t.Draw(len(localZones))]
	if loc != time.UTC {
		st.Inc("probe:zone-non-utc")
	}

	warmUp(t, st, schema, "POST", rawURL, msg)

	dl := drawDelivery(t)

	req, rerr, _, p := receive(st, schema, "POST", rawURL, msg, dl, -1, core.DrawMapOrder(t), loc)
	if p != nil {
		return viol(P, "no-panic", p.Func, "receive-"+impl+":"+p.Class, "NewRequest on the marshaled resource panicked: %s\n    message: %s", p.Value, msg)
	}

	st.Steps++

	if rerr != nil {
		return viol(P, "round-trip-accepted", "NewRequest", impl+":"+failingKind(ts, rs, rerr), "the receiver rejects what the sender marshaled: %v\n    sent: %s\n    message: %s", rerr, rs.Describe(), msg)
	}

	got, ok := req.Doc.Data.(jsonapi.Resource)
	if !ok || got == nil {
		return viol(P, "round-trip-kind", "UnmarshalDocument", impl, "primary data came back as %T, not a resource\n    message: %s", req.Doc.Data, msg)
	}

	if v := compareResource(P, t, ts, rs, got, ts.Fields(), relNames(ts), impl); v != nil {
		v.Message += fmt.Sprintf("\n    message: %s\n    delivery: chunks<=%d zero-reads=%v eof-with-data=%v zone=%s", msg, dl.maxChunk, dl.zero, dl.eofData, loc)
		return v
	}

	// the direct path, under another map order
	var doc2 *jsonapi.Document

	mo2 := core.DrawMapOrder(t)
	if p := core.Call(func() { mo2.With(func() { doc2, err = jsonapi.UnmarshalDocument(msg, schema) }) }); p != nil {
		return viol(P, "no-panic", p.Func, "unmarshal-"+impl+":"+p.Class, "UnmarshalDocument panicked: %s\n    message: %s", p.Value, msg)
	}

	st.MapOrder(mo2)
	st.Inc("op:UnmarshalDocument")

	if err != nil {
		return viol(P, "round-trip-accepted", "UnmarshalDocument", impl+":"+failingKind(ts, rs, err), "UnmarshalDocument rejects what MarshalDocument produced: %v\n    message: %s", err, msg)
	}

	got2, ok := doc2.Data.(jsonapi.Resource)
	if !ok || got2 == nil {
		return viol(P, "round-trip-kind", "UnmarshalDocument", impl, "primary data came back as %T, not a resource", doc2.Data)
	}

	if v := compareResource(P, t, ts, rs, got2, ts.Fields(), relNames(ts), impl); v != nil {
		v.Message += fmt.Sprintf("\n    message: %s", msg)
		return v
	}

	if len(ts.Attrs)+len(ts.Rels) > 0 {
		st.MarkNonTrivial()
	}

	// The receiver owns what it received: it may overwrite the values behind the
	// pointers of nullable attributes. That must not reach any later message (the
	// next runs of this worker process decode into fresh storage or they fail).
	if t.Bool(1, 4) {
		core.Call(func() {
			for _, a := range ts.Attrs {
				if !a.Nullable {
					continue
				}

				if rv := reflect.ValueOf(got2.Get(a.Name)); rv.IsValid() && rv.Kind() == reflect.Ptr && !rv.IsNil() {
					rv.Elem().Set(reflect.Zero(rv.Elem().Type()))
					st.Inc("probe:receiver-overwrote-pointee")
				}
			}
		})
	}

	return nil
}

func relNames(ts *world.TypeSpec) []string {
	var n []string
	for _, r := range ts.Rels {
		n = append(n, r.Name)
	}

	return n
}

func valueProbes(st *core.Stats, rs *world.ResSpec) {
	for _, a := range rs.Type.Attrs {
		v := rs.Vals[a.Name]
		st.State(core.HashString(world.KindName(a.Kind, a.Nullable) + "=" + world.Canon(v)))

		if world.IsNull(v) {
			st.Inc("probe:value-nil-pointer")
			continue
		}

		switch x := world.Deref(v).(type) {
		case uint64:
			if x > 1<<63 {
				st.Inc("probe:value-uint64-above-2^63")
			}
		case uint:
			if uint64(x) > 1<<63 {
				st.Inc("probe:value-uint64-above-2^63")
			}
		case string:
			if strings.ContainsRune(x, 0) {
				st.Inc("probe:value-nul-string")
			}
		case time.Time:
			if _, off := x.Zone(); off != 0 {
				st.Inc("probe:value-zoned-time")
			}
		case []byte:
			if len(x) == 0 {
				st.Inc("probe:value-empty-bytes")
			}
		}
	}
}

// failingKind names the attribute kind an error message points at, if any.
func failingKind(ts *world.TypeSpec, rs *world.ResSpec, err error) string {
	msg := err.Error()

	if je, ok := err.(jsonapi.Error); ok {
		if f, ok := je.Meta["field"].(string); ok {
			if a := ts.Attr(f); a != nil {
				return "attr-" + world.KindName(a.Kind, a.Nullable)
			}

			if r := ts.Rel(f); r != nil {
				return map[bool]string{true: "to-one", false: "to-many"}[r.ToOne]
			}
		}
	}

	if len(msg) > 30 {
		msg = msg[:30]
	}

	return "error:" + msg
}

// compareResource compares a received resource with what was sent on the given
// fields; relationship values only for the names in relData.
func compareResource(prop string, t *core.Tape, ts *world.TypeSpec, want *world.ResSpec, got jsonapi.Resource, fields, relData []string, impl string) *core.Violation {
	var v *core.Violation

	p := core.Call(func() {
		if n := got.GetType().Name; n != ts.Name {
			v = viol(prop, "same-type", "UnmarshalResource", impl, "type name came back as %q, sent %q", n, ts.Name)
			return
		}

		if id, _ := got.Get("id").(string); id != want.ID {
			v = viol(prop, "same-id", "UnmarshalResource", impl, "ID came back as %q, sent %q", id, want.ID)
			return
		}

		for _, f := range fields {
			if a := ts.Attr(f); a != nil {
				g := got.Get(f)
				if world.Canon(g) != world.Canon(want.Vals[f]) {
					v = viol(prop, "same-value", "attribute", impl+":"+world.KindName(a.Kind, a.Nullable),
						"attribute %q (%s) came back as %s, sent %s\n    sent: %s", f, world.KindName(a.Kind, a.Nullable), world.Show(g), world.Show(want.Vals[f]), want.Describe())

					return
				}

				if !world.ExactType(g, a.Kind, a.Nullable) && !(g == nil && a.Nullable) {
					v = viol(prop, "same-value", "attribute-type", impl+":"+world.KindName(a.Kind, a.Nullable),
						"attribute %q came back with Go type %T, declared %s", f, g, world.KindName(a.Kind, a.Nullable))

					return
				}

				continue
			}

			r := ts.Rel(f)
			if r == nil {
				continue
			}

			requested := false

			for _, n := range relData {
				if n == f {
					requested = true
				}
			}

			if !requested {
				continue
			}

			g := got.Get(f)

			if r.ToOne {
				gs, _ := g.(string)
				if ws, _ := want.Vals[f].(string); gs != ws {
					v = viol(prop, "same-value", "to-one", impl, "to-one relationship %q came back as %q, sent %q", f, gs, ws)
					return
				}
			} else if world.CanonSet(g) != world.CanonSet(want.Vals[f]) {
				v = viol(prop, "same-value", "to-many", impl, "to-many relationship %q came back as %s, sent %s", f, world.CanonSet(g), world.CanonSet(want.Vals[f]))
				return
			}
		}
	})
	if p != nil {
		return viol(prop, "no-panic", p.Func, "read-received:"+p.Class, "reading the received resource panicked: %s", p.Value)
	}

	if v != nil {
		t.Logf("  MISMATCH %s", v.Message)
	}

	return v
}

// ---------------------------------------------------------------------------------------------
// C02

func jsonEq(a, b interface{}) bool {
	ab, _ := json.Marshal(a)
	bb, _ := json.Marshal(b)

	var av, bv interface{}

	_ = json.Unmarshal(ab, &av)
	_ = json.Unmarshal(bb, &bv)

	return reflect.DeepEqual(normEmpty(av), normEmpty(bv))
}

// normEmpty maps empty objects to nil so that nil and empty maps compare equal.
func normEmpty(v interface{}) interface{} {
	switch x := v.(type) {
	case map[string]interface{}:
		if len(x) == 0 {
			return nil
		}

		for _, k := range sortedKeys(x) {
			x[k] = normEmpty(x[k])
		}
	case []interface{}:
		for i := range x {
			x[i] = normEmpty(x[i])
		}
	}

	return v
}

func sortedKeys(m map[string]interface{}) []string {
	ks := make([]string, 0, len(m))
	for k := range m {
		ks = append(ks, k)
	}

	sort.Strings(ks)

	return ks
}

func errorText(e jsonapi.Error) map[string]interface{} {
	return map[string]interface{}{"id": e.ID, "code": e.Code, "status": e.Status, "title": e.Title, "detail": e.Detail, "links": e.Links, "source": e.Source, "meta": e.Meta}
}

func runC02(t *core.Tape, st *core.Stats) *core.Violation {
	const P = "C02"

	spec := world.DrawSchema(t, schemaOpts(5))

	var (
		schema *jsonapi.Schema
		err    error
	)

	viaHistory := false

	defer func() {
		if viaHistory {
			st.Inc("probe:schema-built-through-edit-history")
		}
	}()

	if p := core.Call(func() { schema, viaHistory, err = spec.BuildSchemaAnyHow(t) }); p != nil {
		return viol(P, "no-panic", p.Func, "build-schema:"+p.Class, "building the schema panicked: %s", p.Value)
	}

	if err != nil {
		st.Inc("probe:schema-refused")
		return viol(P, "valid-input-accepted", "Schema", "build-schema", "the library refuses a schema that is valid by construction (via a longer edit history: %v): %v", viaHistory, err)
	}

	ds := world.DrawDoc(t, spec, world.DocOptions{MaxPrimary: 5, MaxIncluded: 4, InclPairs: true, Errors: true, ExoticIDs: false})
	t.Logf("%s", ds.Describe())
	st.Inc("probe:kind-" + ds.Kind)

	var (
		doc *jsonapi.Document
		u   *jsonapi.URL
		msg []byte
	)

	moS := core.DrawMapOrder(t)

	if p := core.Call(func() {
		moS.With(func() {
			doc, u, err = ds.Materialise(schema, world.MatOptions{})
			if err != nil {
				return
			}

			msg, err = jsonapi.MarshalDocument(doc, u)
		})
	}); p != nil {
		return viol(P, "no-panic", p.Func, "send-"+ds.Kind+":"+p.Class, "marshaling the document panicked: %s", p.Value)
	}

	st.MapOrder(moS)
	st.Inc("op:MarshalDocument")

	if err != nil {
		// URL and document are valid by construction (existing types and fields only)
		st.Inc("probe:send-refused")
		return viol(P, "valid-input-accepted", "NewURLFromRaw/MarshalDocument", ds.Kind, "the sender's URL %q or document is refused although valid by construction: %v\n    %s", ds.RawURL(nil), err, ds.Describe())
	}

	t.Logf("message: %s", msg)
	st.State(core.HashString(string(msg)))

	method := "POST"
	if t.Bool(1, 3) {
		method = "PATCH"
		st.Inc("probe:method-PATCH")
	}

	warmUp(t, st, schema, method, ds.RawURL(nil), msg)

	dl := drawDelivery(t)

	req, rerr, _, p := receive(st, schema, method, ds.RawURL(nil), msg, dl, -1, core.DrawMapOrder(t), localZones[t.Draw(len(localZones))])
	if p != nil {
		return viol(P, "no-panic", p.Func, "receive-"+ds.Kind+":"+p.Class, "NewRequest on the marshaled document panicked: %s\n    message: %s", p.Value, msg)
	}

	st.Steps++

	if rerr != nil {
		return viol(P, "round-trip-accepted", "NewRequest", ds.Kind, "the receiver rejects what the sender marshaled: %v\n    message: %s", rerr, msg)
	}

	got := req.Doc
	fail := func(clause, input, format string, a ...interface{}) *core.Violation {
		v := viol(P, clause, "UnmarshalDocument", input, format, a...)
		v.Message += fmt.Sprintf("\n    message: %s", msg)
		t.Logf("  MISMATCH %s", v.Message)

		return v
	}

	// errors win over data
	if len(ds.Errors) > 0 {
		st.Inc("probe:with-errors")

		if got.Data != nil {
			return fail("errors-without-data", "errors", "a document carrying errors came back with data %T", got.Data)
		}

		if len(got.Errors) != len(ds.Errors) {
			return fail("same-errors", "errors", "%d error objects sent, %d received", len(ds.Errors), len(got.Errors))
		}

		for i := range ds.Errors {
			if !jsonEq(errorText(ds.Errors[i]), errorText(got.Errors[i])) {
				return fail("same-errors", "errors", "error object #%d differs: sent %+v, received %+v", i, ds.Errors[i], got.Errors[i])
			}
		}

		if !jsonEq(ds.Meta, got.Meta) {
			return fail("same-meta", "errors", "meta differs: sent %v, received %v", ds.Meta, got.Meta)
		}

		st.MarkNonTrivial()

		return nil
	}

	selected := func(typ string) []string { return u.Params.Fields[typ] }
	relData := func(typ string) []string { return ds.RelData[typ] }

	cmp := func(want *world.ResSpec, g jsonapi.Resource) *core.Violation {
		v := compareResource(P, t, want.Type, want, g, selected(want.Type.Name), relData(want.Type.Name), map[bool]string{true: "wrapped", false: "soft"}[want.Type.Struct])
		if v != nil {
			v.Message += fmt.Sprintf("\n    message: %s", msg)
		}

		return v
	}

	switch ds.Kind {
	case "nil":
		if got.Data != nil {
			return fail("same-kind", ds.Kind, "null primary data came back as %T", got.Data)
		}
	case "resource":
		g, ok := got.Data.(jsonapi.Resource)
		if !ok || g == nil {
			return fail("same-kind", ds.Kind, "a single resource came back as %T", got.Data)
		}

		if v := cmp(ds.Primary[0], g); v != nil {
			return v
		}

		if ds.ResMeta != nil {
			if mh, ok := g.(jsonapi.MetaHolder); ok && !jsonEq(ds.ResMeta, mh.Meta()) {
				// resource-level meta is not named by the statement; counted, not judged
				st.Inc("probe:resource-meta-differs")
			}
		}
	case "identifier":
		g, ok := got.Data.(jsonapi.Resource)
		if !ok || g == nil {
			return fail("same-kind", ds.Kind, "an identifier came back as %T", got.Data)
		}

		if tn, id := g.GetType().Name, g.Get("id"); tn != ds.Idents[0].Type || id != ds.Idents[0].ID {
			return fail("same-identifier", ds.Kind, "identifier %q/%q came back as %q/%v", ds.Idents[0].Type, ds.Idents[0].ID, tn, id)
		}
	case "identifiers":
		col, ok := got.Data.(jsonapi.Collection)
		if !ok || col == nil {
			return fail("same-kind", ds.Kind, "a list of identifiers came back as %T", got.Data)
		}

		if col.Len() != len(ds.Idents) {
			return fail("same-length", ds.Kind, "%d identifiers sent, %d received", len(ds.Idents), col.Len())
		}

		for i, id := range ds.Idents {
			g := col.At(i)
			if tn, gid := g.GetType().Name, g.Get("id"); tn != id.Type || gid != id.ID {
				return fail("same-identifier", ds.Kind, "identifier #%d %q/%q came back as %q/%v", i, id.Type, id.ID, tn, gid)
			}
		}
	default:
		col, ok := got.Data.(jsonapi.Collection)
		if !ok || col == nil {
			return fail("same-kind", ds.Kind, "a collection came back as %T", got.Data)
		}

		if col.Len() != len(ds.Primary) {
			return fail("same-length", ds.Kind, "%d resources sent, %d received", len(ds.Primary), col.Len())
		}

		for i, want := range ds.Primary {
			if v := cmp(want, col.At(i)); v != nil {
				v.Clause = "same-order-and-values"
				return v
			}
		}
	}

	// included: same (type, ID) pairs with equal values
	if len(ds.Included) > 0 {
		st.Inc("probe:with-included")
	}

	if len(got.Included) != len(ds.Included) {
		return fail("same-included", ds.Kind, "%d included resources sent, %d received", len(ds.Included), len(got.Included))
	}

	for _, want := range ds.Included {
		var found jsonapi.Resource

		for _, g := range got.Included {
			if g.GetType().Name == want.Type.Name && g.Get("id") == want.ID {
				found = g
			}
		}

		if found == nil {
			return fail("same-included", ds.Kind, "included %q/%q did not come back", want.Type.Name, want.ID)
		}

		if v := cmp(want, found); v != nil {
			v.Clause = "same-included"
			return v
		}
	}

	if ds.Meta != nil {
		st.Inc("probe:with-meta")
	}

	if !jsonEq(ds.Meta, got.Meta) {
		return fail("same-meta", ds.Kind, "meta differs: sent %v, received %v", ds.Meta, got.Meta)
	}

	if len(ds.Primary)+len(ds.Idents)+len(ds.Included) > 0 {
		st.MarkNonTrivial()
	}

	// The same Document value, given as many other included resources, is sent
	// again: what comes back must be the new ones.
	if len(ds.Included) > 0 && t.Bool(1, 3) {
		var neu []*world.ResSpec

		for i := range ds.Included {
			ts := spec.Types[t.Draw(len(spec.Types))]
			neu = append(neu, world.DrawResSpec(t, ts, fmt.Sprintf("second%d", i)))
		}

		var (
			msg2 []byte
			doc2 *jsonapi.Document
		)

		if p := core.Call(func() {
			doc.Included = nil
			for _, rs := range neu {
				doc.Included = append(doc.Included, rs.Clone().Materialise(schema))
			}

			if msg2, err = jsonapi.MarshalDocument(doc, u); err == nil {
				doc2, err = jsonapi.UnmarshalDocument(msg2, schema)
			}
		}); p != nil {
			return viol(P, "no-panic", p.Func, "second-send-"+ds.Kind+":"+p.Class, "sending the re-used document panicked: %s", p.Value)
		}

		st.Inc("probe:document-reused-with-other-included")

		if err != nil {
			return viol(P, "round-trip-accepted", "UnmarshalDocument", ds.Kind+":reused-document", "the re-used document does not survive the round trip: %v\n    message: %s", err, msg2)
		}

		if len(doc2.Included) != len(neu) {
			return viol(P, "same-included", "UnmarshalDocument", ds.Kind+":reused-document", "%d included resources sent with the re-used document, %d received\n    message: %s", len(neu), len(doc2.Included), msg2)
		}

		for _, want := range neu {
			found := false

			for _, g := range doc2.Included {
				if g.GetType().Name == want.Type.Name && g.Get("id") == want.ID {
					found = true
				}
			}

			if !found {
				return viol(P, "same-included", "UnmarshalDocument", ds.Kind+":reused-document", "the document was given other included resources and sent again; %q/%q did not come back\n    message: %s", want.Type.Name, want.ID, msg2)
			}
		}
	}

	return nil
}
