package e2wire

import (
	"testing"

	"verifsim/world"
)

// The payload diagnosis of the open C05 finding must see what encoding/json sees:
// member names match case-insensitively.
func TestHasBadBytesAttrFoldsMemberNames(t *testing.T) {
	ts := &world.TypeSpec{Name: "a-b", Attrs: []world.AttrSpec{{Name: "ab", Kind: world.KBytes}, {Name: "name", Kind: world.KInt16}}}
	c := &c05{spec: &world.SchemaSpec{Types: []*world.TypeSpec{ts}}}

	for payload, want := range map[string]bool{
		`[{"attributes":{"ab":"AQID//4-","name":1},"id":"a","tYpe":"a-b"}]`:        true,
		`[{"attributes":{"ab":"AQID//4-","name":1},"id":"a","type":"a-b"}]`:        true,
		`{"data":{"Attributes":{"ab":17},"id":"a","TYPE":"a-b"}}`:                 true,
		`[{"attributes":{"ab":"AQID//4=","name":1},"id":"a","tYpe":"a-b"}]`:        false,
		`[{"attributes":{"ab":"AQID//4-","name":1},"id":"a","type":"other"}]`:      false,
		`[{"attributes":{"name":"AQID//4-"},"id":"a","type":"a-b"}]`:               false,
		`[{"attributes":{"ab":null},"id":"a","type":"a-b"}]`:                       false,
		`[{"attributes":{"ab":"AQID//4-"},"id":"a","type":"x","tYPe":"a-b"}]`:      true,
	} {
		if got := c.hasBadBytesAttr([]byte(payload)); got != want {
			t.Errorf("hasBadBytesAttr(%s) = %v, want %v", payload, got, want)
		}
	}
}
