// Package e3url is engine E3: raw URLs built from a seeded schema are parsed
// and printed under seeded map-iteration orders, in several variants that
// differ only in the order of differently named parameters, of the names inside
// fields / include lists and in empty list items (the seam-dependent clause of
// C08); the re-parse fixed point is monitored on every URL the runs produce.
package e3url

import (
	"encoding/json"
	"fmt"
	"net/url"
	"sort"
	"strings"

	"github.com/mfcochauxlaberge/jsonapi"

	"verifsim/core"
	"verifsim/world"
)

// Engine is E3.
type Engine struct{}

// Name implements core.Engine.
func (Engine) Name() string { return "E3-url" }

// Runs implements core.Engine.
func (Engine) Runs(prop, tier string) int {
	if tier == "thorough" {
		return 12000000
	}

	return 300000
}

// Describe implements core.Engine.
func (Engine) Describe(prop string) core.Description {
	return core.Description{
		Level: "exploration",
		Real: []string{
			"jsonapi.NewURLFromRaw (net/url parsing, NewSimpleURL, NewURL, NewParams), jsonapi.URL.String, jsonapi.Filter.UnmarshalJSON / json marshaling of filter trees",
			"the package's map-range loops (parameter walk in NewSimpleURL, five loops in NewParams, the field walk in URL.String) under the seeded map-order scheduler",
		},
		Stub: []string{"none: metamorphic oracle (variants of one URL must print the same text; String() must be a fixed point of parse-then-print)"},
		Rule: "one run = one seeded schema (member names; some types without fields) and one raw URL of any accepted path shape with any mix of fields[t], sort, include, page[number|size], filter (label or and/or tree whose object members come in any order, now and then with white space; in a quarter of the runs the schema is reached through a longer edit history), IDs / page values / labels / filter strings drawn with URL-reserved characters (percent-encoded), then 1..6 variants (differently named parameters permuted, names in fields[...] and include permuted, empty list items inserted; never the order inside sort, never a repeated parameter); every parse and every String() runs under its own seeded map order; " +
			"non-trivial = the URL parses and has at least two parameters or a reserved character; distinct = distinct event-log hash; distinct_model_states counts distinct String() texts",
		Assumptions: []string{
			"a raw URL whose parse errs or panics is outside C08 ('for every successfully parsed URL'): counted, not judged",
			"only page[number] and page[size] are generated as page parameters; an empty field list and an absent entry are the same selection",
			"the fixed-point clause is monitored on sampled URLs; the seam-dependent clause (parameter / list order, map order) is what simulation decides",
		},
		Probes: []string{"parse-ok", "parse-error", "reserved-char-in-id", "reserved-char-in-filter-label", "reserved-char-in-page-value", "reserved-char-in-filter-string", "filter-tree", "filter-members-in-another-order", "type-without-fields", "variant-params-permuted", "variant-empty-items", "relationship-url", "collection-url", "include-param", "extra-page-parameter", "schema-built-through-edit-history", "names-that-need-escaping", "schema-edited-between-parses"},
	}
}

func viol(clause, site, input, format string, a ...interface{}) *core.Violation {
	return &core.Violation{Property: "C08", Clause: clause, Site: site, Input: input, Message: fmt.Sprintf(format, a...)}
}

type param struct {
	name  string   // decoded name, e.g. fields[a]
	items []string // list items (decoded) for list parameters
	value string   // decoded value for scalar parameters
	list  bool
	keep  bool // the order of items matters (sort)
}

// URL-reserved characters, control bytes (below 0x10 they need a leading zero when
// percent-encoded), and text that looks like an escape sequence
var reserved = []string{" ", "&", "?", "#", "%", "+", "/", "=", "é", ";", "\t", "\n", "\x00", "\x0f", `\`, `\u0026`, `\u003c`, `"`, "%41", "%zz",
	// a backslash followed by a letter that makes a JSON escape (the parser reads filter labels as JSON string bodies)
	`\b`, `\t`, `\n`, `\\`, `\/`, `\"`}

func spice(t *core.Tape, base string) (string, bool) {
	if !t.Bool(1, 3) {
		return base, false
	}

	r := reserved[t.Draw(len(reserved))]

	switch t.Draw(3) {
	case 0:
		return base + r + "x", true
	case 1:
		return r + base, true
	default:
		return base + r, true
	}
}

// esc percent-encodes a query component so that it decodes to s exactly.
func esc(s string) string { return strings.ReplaceAll(url.QueryEscape(s), "+", "%20") }

func (p param) raw(rng *core.Rng, emptyItems bool) string {
	if !p.list {
		return esc(p.name) + "=" + esc(p.value)
	}

	items := append([]string{}, p.items...)

	if rng != nil && !p.keep && len(items) > 1 {
		perm := rng.Perm(len(items))
		out := make([]string, len(items))

		for i, j := range perm {
			out[i] = items[j]
		}

		items = out
	}

	parts := make([]string, 0, len(items)+2)

	for _, it := range items {
		if emptyItems && rng != nil && rng.Intn(3) == 0 {
			parts = append(parts, "")
		}

		parts = append(parts, esc(it))
	}

	if emptyItems && rng != nil && rng.Intn(2) == 0 {
		parts = append(parts, "")
	}

	return esc(p.name) + "=" + strings.Join(parts, ",")
}

type urlSpec struct {
	resType string // name of the type the URL's sorting rules and filter are about
	path    string // escaped
	params  []param
	flags   map[string]bool
}

func (u *urlSpec) raw(rng *core.Rng, emptyItems bool) string {
	ps := append([]param{}, u.params...)

	if rng != nil && len(ps) > 1 {
		perm := rng.Perm(len(ps))
		out := make([]param, len(ps))

		for i, j := range perm {
			out[i] = ps[j]
		}

		ps = out
	}

	parts := make([]string, len(ps))
	for i, p := range ps {
		parts[i] = p.raw(rng, emptyItems)
	}

	if len(parts) == 0 {
		return u.path
	}

	return u.path + "?" + strings.Join(parts, "&")
}

func drawFilterTree(t *core.Tape, ts *world.TypeSpec, depth int, flags map[string]bool) map[string]interface{} {
	if depth < 2 && t.Bool(1, 3) {
		n := t.Range(0, 3)
		kids := make([]interface{}, n)

		for i := range kids {
			kids[i] = drawFilterTree(t, ts, depth+1, flags)
		}

		node := map[string]interface{}{"o": []string{"and", "or"}[t.Draw(2)], "v": kids}
		if t.Bool(1, 4) {
			node["c"] = "coll" // a collation may sit on any node
		}

		return node
	}

	f := "x"
	if fs := ts.Fields(); len(fs) > 0 {
		f = fs[t.Draw(len(fs))]
	}

	var v interface{}

	switch t.Draw(4) {
	case 0:
		v = float64(t.Range(-3, 40))
	case 1:
		v = t.Bool(1, 2)
	case 2:
		v = nil
	default:
		s, sp := spice(t, "val")
		v = s

		if sp {
			flags["reserved-char-in-filter-string"] = true
		}
	}

	m := map[string]interface{}{"f": f, "o": []string{"=", "!=", "<", ">=", "in"}[t.Draw(5)], "v": v}
	if t.Bool(1, 4) {
		m["c"] = "coll"
	}

	return m
}

// filterJSON writes a filter tree as a client may: the members of an object in
// any order (JSON objects are unordered; encoding/json would always write c, f,
// o, v) and, now and then, with insignificant white space.
func filterJSON(t *core.Tape, node map[string]interface{}, flags map[string]bool) string {
	keys := make([]string, 0, len(node))
	for k := range node {
		keys = append(keys, k)
	}

	sort.Strings(keys)

	if t.Bool(1, 3) {
		for i := len(keys) - 1; i > 0; i-- {
			j := t.Draw(i + 1)
			keys[i], keys[j] = keys[j], keys[i]
		}

		if !sort.StringsAreSorted(keys) {
			flags["filter-members-in-another-order"] = true
		}
	}

	sp := ""
	if t.Bool(1, 8) {
		sp = " "
	}

	var sb strings.Builder

	sb.WriteString("{" + sp)

	for i, k := range keys {
		if i > 0 {
			sb.WriteString("," + sp)
		}

		kb, _ := json.Marshal(k)
		sb.Write(kb)
		sb.WriteString(":" + sp)

		if kids, ok := node[k].([]interface{}); ok && k == "v" {
			sb.WriteString("[")

			for j, kid := range kids {
				if j > 0 {
					sb.WriteString("," + sp)
				}

				sb.WriteString(filterJSON(t, kid.(map[string]interface{}), flags))
			}

			sb.WriteString("]")

			continue
		}

		vb, _ := json.Marshal(node[k])
		sb.Write(vb)
	}

	sb.WriteString(sp + "}")

	return sb.String()
}

func drawURL(t *core.Tape, s *world.SchemaSpec) *urlSpec {
	u := &urlSpec{flags: map[string]bool{}}
	ts := s.Types[t.Draw(len(s.Types))]
	resType := ts
	id, sp := spice(t, world.PlainIDs[t.Draw(len(world.PlainIDs))])

	if sp {
		u.flags["reserved-char-in-id"] = true
	}

	shape := t.Draw(4)
	if len(ts.Rels) == 0 && shape >= 2 {
		shape = t.Draw(2)
	}

	isCol := false

	switch shape {
	case 0:
		u.path = "/" + url.PathEscape(ts.Name)
		isCol = true
	case 1:
		u.path = "/" + url.PathEscape(ts.Name) + "/" + url.PathEscape(id)
	default:
		r := ts.Rels[t.Draw(len(ts.Rels))]
		u.path = "/" + url.PathEscape(ts.Name) + "/" + url.PathEscape(id)

		if shape == 3 {
			u.path += "/relationships"
		}

		u.path += "/" + url.PathEscape(r.Name)
		isCol = !r.ToOne

		if rt := s.Type(r.ToType); rt != nil {
			resType = rt
		}

		u.flags["relationship-url"] = true
	}

	if isCol {
		u.flags["collection-url"] = true
	}

	u.resType = resType.Name

	// fields
	for _, ft := range s.Types {
		if !t.Bool(1, 3) {
			continue
		}

		fs := ft.Fields()

		var sel []string

		for _, f := range fs {
			if t.Bool(2, 3) {
				sel = append(sel, f)
			}
		}

		if t.Bool(1, 6) {
			sel = append(sel, "id")
		}

		if len(fs) == 0 {
			u.flags["type-without-fields"] = true

			if t.Bool(1, 2) {
				sel = append(sel, "nosuchfield")
			}
		}

		if len(sel) == 0 {
			continue
		}

		u.params = append(u.params, param{name: "fields[" + ft.Name + "]", items: sel, list: true})
	}

	// sort (order kept, no repeated rule)
	if t.Bool(1, 2) {
		var rules []string

		for _, a := range resType.Attrs {
			if t.Bool(1, 2) {
				rules = append(rules, []string{"", "-"}[t.Draw(2)]+a.Name)
			}
		}

		if t.Bool(1, 3) {
			rules = append(rules, []string{"id", "-id"}[t.Draw(2)])
		}

		if len(rules) > 0 {
			perm := core.NewRng(t.Seed64()).Perm(len(rules))
			out := make([]string, len(rules))

			for i, j := range perm {
				out[i] = rules[j]
			}

			u.params = append(u.params, param{name: "sort", items: out, list: true, keep: true})
		}
	}

	// include
	if len(resType.Rels) > 0 && t.Bool(1, 3) {
		var incs []string

		for _, r := range resType.Rels {
			if !t.Bool(1, 2) {
				continue
			}

			path := r.Name

			if rt := s.Type(r.ToType); rt != nil && len(rt.Rels) > 0 && t.Bool(1, 3) {
				path += "." + rt.Rels[t.Draw(len(rt.Rels))].Name
			}

			incs = append(incs, path)
		}

		if len(incs) > 0 {
			u.params = append(u.params, param{name: "include", items: incs, list: true})
			u.flags["include-param"] = true
		}
	}

	// page
	for _, k := range []string{"number", "size"} {
		if !t.Bool(1, 3) {
			continue
		}

		v := fmt.Sprint(t.Range(0, 120))

		if t.Bool(1, 6) {
			v = []string{"007", "+5", "-1", "1e3", "0x10", " 7", "7 ", "9223372036854775808", "00"}[t.Draw(9)]
		}

		if t.Bool(1, 5) {
			var sp bool

			v, sp = spice(t, "p")
			if sp {
				u.flags["reserved-char-in-page-value"] = true
			}
		}

		u.params = append(u.params, param{name: "page[" + k + "]", value: v})
	}

	// other page parameters are legal too (the parser keeps them), also with
	// reserved characters in their name
	if t.Bool(1, 6) {
		k, _ := spice(t, []string{"cursor", "after", "k", "before"}[t.Draw(4)])
		u.params = append(u.params, param{name: "page[" + k + "]", value: fmt.Sprint(t.Draw(9))})
		u.flags["extra-page-parameter"] = true
	}

	// the other common pagination vocabulary, both keys together (whatever a parser
	// makes of them, it must not depend on the order it meets them in)
	if t.Bool(1, 8) {
		limit := []int{1, 2, 5, 10}[t.Draw(4)]
		u.params = append(u.params, param{name: "page[limit]", value: fmt.Sprint(limit)})
		u.params = append(u.params, param{name: "page[offset]", value: fmt.Sprint(limit * t.Draw(5))})
		u.flags["extra-page-parameter"] = true
	}

	// filter
	switch t.Draw(4) {
	case 0:
		l, sp := spice(t, "label")
		if sp {
			u.flags["reserved-char-in-filter-label"] = true
		}

		u.params = append(u.params, param{name: "filter", value: l})
	case 1:
		tree := drawFilterTree(t, resType, 0, u.flags)
		u.params = append(u.params, param{name: "filter", value: filterJSON(t, tree, u.flags)})
		u.flags["filter-tree"] = true
	}

	return u
}

// snapshot renders what C08 says the re-parse must recover.
func snapshot(u *jsonapi.URL) string {
	var sb strings.Builder

	fmt.Fprintf(&sb, "fragments=%q type=%q id=%q col=%v relkind=%q rel=%+v", u.Fragments, u.ResType, u.ResID, u.IsCol, u.RelKind, u.Rel)

	types := make([]string, 0, len(u.Params.Fields))
	for k := range u.Params.Fields {
		types = append(types, k)
	}

	sort.Strings(types)

	for _, k := range types {
		if len(u.Params.Fields[k]) == 0 {
			continue // an empty selection and an absent entry select the same (nothing)
		}

		names := append([]string{}, u.Params.Fields[k]...)
		sort.Strings(names)
		fmt.Fprintf(&sb, " fields[%q]=%q", k, names)
	}

	fmt.Fprintf(&sb, " sort=%q", u.Params.SortingRules)

	if u.IsCol {
		if v, ok := u.Params.Page["number"]; ok {
			fmt.Fprintf(&sb, " page[number]=%v(%T)", v, v)
		}

		if v, ok := u.Params.Page["size"]; ok {
			fmt.Fprintf(&sb, " page[size]=%v(%T)", v, v)
		}
	}

	fmt.Fprintf(&sb, " filterlabel=%q filter=%s", u.Params.FilterLabel, filterText(u.Params.Filter))

	return sb.String()
}

// filterText renders a filter tree by walking it (not through its own JSON
// marshaling, which a tree under test may have customised).
func filterText(f *jsonapi.Filter) string {
	if f == nil {
		return "<nil>"
	}

	var sb strings.Builder

	fmt.Fprintf(&sb, "{f=%q o=%q c=%q v=", f.Field, f.Op, f.Col)

	switch v := f.Val.(type) {
	case []*jsonapi.Filter:
		sb.WriteString("[")

		for _, k := range v {
			sb.WriteString(filterText(k))
		}

		sb.WriteString("]")
	default:
		b, _ := json.Marshal(v)
		sb.Write(b)
	}

	sb.WriteString("}")

	return sb.String()
}

type parsed struct {
	u    *jsonapi.URL
	err  error
	str  string
	str2 string // String() called a second time on the same URL value
	snap string
}

// Run implements core.Engine.
func (Engine) Run(prop string, t *core.Tape, st *core.Stats) *core.Violation {
	v := run(t, st)
	if v != nil && !st.Fail(v) {
		return nil
	}

	return v
}

func run(t *core.Tape, st *core.Stats) *core.Violation {
	// member names that need escaping in a URL (space, &, quotes, non-ASCII ...) in a
	// quarter of the runs: the library accepts any non-empty name
	style := world.NamesPlain
	if t.Bool(1, 4) {
		style = world.NamesExotic
		st.Inc("probe:names-that-need-escaping")
	}

	spec := world.DrawSchema(t, world.SchemaOptions{MinTypes: 1, MaxTypes: 4, MaxAttrs: 4, MaxRels: 3, Names: style, AllowStruct: true, ForceStruct: -1, TwoWay: true})

	var (
		schema *jsonapi.Schema
		err    error
	)

	viaHistory := false

	defer func() {
		if viaHistory {
			st.Inc("probe:schema-built-through-edit-history")
		}
	}()

	if p := core.Call(func() { schema, viaHistory, err = spec.BuildSchemaAnyHow(t) }); p != nil {
		return viol("no-panic", p.Func, "build-schema:"+p.Class, "building the schema panicked: %s", p.Value)
	}

	if err != nil {
		st.Inc("probe:schema-refused")
		return nil
	}

	us := drawURL(t, spec)

	flags := make([]string, 0, len(us.flags))
	for k := range us.flags {
		flags = append(flags, k)
	}

	sort.Strings(flags)

	for _, f := range flags {
		st.Inc("probe:" + f)
	}

	class := "plain"
	for _, f := range flags {
		if strings.HasPrefix(f, "reserved-char") || f == "type-without-fields" {
			class = f
			break
		}
	}

	// parse + print, each under its own map order; panics in parsing are C07's
	parse := func(raw string) (*parsed, bool) {
		pr := &parsed{}
		mo := core.DrawMapOrder(t)
		p := core.Call(func() { mo.With(func() { pr.u, pr.err = jsonapi.NewURLFromRaw(schema, raw) }) })
		st.MapOrder(mo)
		st.Inc("op:NewURLFromRaw")
		st.Steps++

		if p != nil {
			st.Inc("probe:parse-panic")
			t.Logf("parse %q -> PANIC %s (outside C08)", raw, p.Value)

			return nil, false
		}

		if pr.err != nil {
			st.Inc("probe:parse-error")
			t.Logf("parse %q -> error %v", raw, pr.err)

			return pr, true
		}

		st.Inc("probe:parse-ok")

		return pr, true
	}

	show := func(pr *parsed, what string) *core.Violation {
		mo := core.DrawMapOrder(t)
		p := core.Call(func() {
			mo.With(func() {
				pr.str = pr.u.String()
				pr.snap = snapshot(pr.u)
				pr.str2 = pr.u.String()
			})
		})
		st.MapOrder(mo)
		st.Inc("op:URL.String")

		if p != nil {
			return viol("no-panic", p.Func, "string:"+class+":"+p.Class, "String() of the %s panicked: %s", what, p.Value)
		}

		if pr.str2 != pr.str {
			return viol("string-repeatable", "URL.String", class, "String() called twice on the same URL gives two texts\n    1st: %q\n    2nd: %q", pr.str, pr.str2)
		}

		return nil
	}

	raw0 := us.raw(nil, false)

	base, ok := parse(raw0)
	if !ok {
		return nil
	}

	if base.err == nil {
		if v := show(base, "URL"); v != nil {
			return v
		}

		t.Logf("parse %q -> String() = %q", raw0, base.str)
		st.State(core.HashString(base.str))
	}

	// 1. variants
	nv := t.Range(1, 6)
	rng := core.NewRng(t.Seed64())

	for i := 0; i < nv; i++ {
		empty := rng.Intn(2) == 0
		raw := us.raw(rng, empty)

		if len(us.params) > 1 {
			st.Inc("probe:variant-params-permuted")
		}

		if empty {
			st.Inc("probe:variant-empty-items")
		}

		vr, ok := parse(raw)
		if !ok {
			return nil
		}

		if (vr.err == nil) != (base.err == nil) {
			return viol("variants-agree-on-acceptance", "NewURLFromRaw", class, "two raw URLs that differ only in parameter / list order or empty list items are not both accepted\n    %q -> %v\n    %q -> %v", raw0, base.err, raw, vr.err)
		}

		if vr.err != nil {
			continue
		}

		if v := show(vr, "variant"); v != nil {
			return v
		}

		t.Logf("variant %q -> String() = %q", raw, vr.str)

		if vr.str != base.str {
			return viol("canonical-form", "URL.String", class, "two raw URLs that differ only in parameter / list order or empty list items print differently\n    %q -> %q\n    %q -> %q", raw0, base.str, raw, vr.str)
		}
	}

	if base.err != nil {
		return nil
	}

	if len(us.params) >= 2 || class != "plain" {
		st.MarkNonTrivial()
	}

	// 2. fixed point (monitored, sampled strength)
	law := func(base *parsed) *core.Violation {
		v := fixedPoint(t, st, parse, show, raw0, base.str, base.snap, class, true)
		if v == nil {
			return nil
		}

		// Diagnose one specific defect: a type whose field list is empty is printed as
		// the truncated parameter "fields%5B<type>%", which the parser then drops. If
		// the law holds once those truncated parameters are removed from the text,
		// that defect is the only deviation and becomes the violation's input class.
		if cleaned := dropTruncatedFields(base.str); cleaned != base.str {
			if fixedPoint(t, st, parse, show, raw0, cleaned, base.snap, class, false) == nil {
				v.Input = "type-without-fields-printed-as-truncated-parameter"
			}
		}

		return v
	}

	if v := law(base); v != nil {
		return v
	}

	// 3. The schema is edited (an attribute is added to the resource type, or one is
	// removed) and the same raw URL is parsed again: "parses against the same schema"
	// is then about the schema as it is now; what the library remembers from the
	// earlier parses must not show.
	if us.resType == "" || !t.Bool(1, 5) {
		return nil
	}

	var (
		edit string
		aerr error
	)

	if p := core.Call(func() {
		typ := schema.GetType(us.resType)

		if len(typ.Attrs) > 0 && t.Bool(1, 3) {
			names := make([]string, 0, len(typ.Attrs))
			for n := range typ.Attrs {
				names = append(names, n)
			}

			sort.Strings(names)

			gone := names[t.Draw(len(names))]
			schema.RemoveAttr(us.resType, gone)
			edit = fmt.Sprintf("RemoveAttr(%q, %q)", us.resType, gone)

			return
		}

		a := jsonapi.Attr{Name: []string{"added-later", "0first", "zz"}[t.Draw(3)], Type: t.Range(1, 14), Nullable: t.Bool(1, 2)}
		aerr = schema.AddAttr(us.resType, a)
		edit = fmt.Sprintf("AddAttr(%q, %q)", us.resType, a.Name)
	}); p != nil || aerr != nil {
		return nil // schema editing is C14's business
	}

	t.Logf("schema edited: %s", edit)
	st.Inc("probe:schema-edited-between-parses")

	base2, ok := parse(raw0)
	if !ok || base2.err != nil {
		return nil // e.g. the URL names the removed attribute
	}

	if v := show(base2, "URL parsed after the schema edit"); v != nil {
		return v
	}

	t.Logf("parse %q (after %s) -> String() = %q", raw0, edit, base2.str)

	if v := law(base2); v != nil {
		// a listed finding keeps its own input class (the edit may have left a type
		// without fields, which is exactly the open C08 finding)
		if v.Input != "type-without-fields-printed-as-truncated-parameter" {
			v.Input += ":after-schema-edit"
		}

		return v
	}

	return nil
}

func dropTruncatedFields(s string) string {
	i := strings.Index(s, "?")
	if i < 0 {
		return s
	}

	var keep []string

	for _, p := range strings.Split(s[i+1:], "&") {
		if strings.HasPrefix(p, "fields%5B") && !strings.Contains(p, "%5D=") {
			continue
		}

		keep = append(keep, p)
	}

	if len(keep) == 0 {
		return s[:i]
	}

	return s[:i] + "?" + strings.Join(keep, "&")
}

// fixedPoint checks that text parses back to the URL described by snap and that
// printing it again gives text (modulo the truncated parameters in both).
func fixedPoint(t *core.Tape, st *core.Stats, parse func(string) (*parsed, bool), show func(*parsed, string) *core.Violation, raw0, text, snap, class string, strict bool) *core.Violation {
	again, ok := parse(text)
	if !ok {
		return viol("string-parses-back", "NewURLFromRaw", class, "parsing String() panics\n    raw: %q\n    String(): %q", raw0, text)
	}

	if again.err != nil {
		return viol("string-parses-back", "NewURLFromRaw", class, "String() does not parse against the same schema: %v\n    raw: %q\n    String(): %q", again.err, raw0, text)
	}

	if v := show(again, "re-parsed URL"); v != nil {
		return v
	}

	if again.snap != snap {
		return viol("reparse-recovers-url", "URL.String", class, "parsing String() gives another URL\n    raw: %q\n    String(): %q\n    parsed:    %s\n    re-parsed: %s", raw0, text, snap, again.snap)
	}

	if strict && again.str != text {
		return viol("string-fixed-point", "URL.String", class, "String() of the re-parsed URL is another text\n    first:  %q\n    second: %q", text, again.str)
	}

	if !strict && dropTruncatedFields(again.str) != text {
		return viol("string-fixed-point", "URL.String", class, "String() of the re-parsed URL is another text\n    first:  %q\n    second: %q", text, again.str)
	}

	return nil
}
