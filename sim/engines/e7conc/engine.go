// Package e7conc is engine E7: one built schema shared by 2..16 caller tasks.
// Tasks are real goroutines running real library code in a -race build; the
// seeded scheduler of package sched decides every interleaving. Four oracles:
// O1 the race detector, O2 a write detector on the shared schema (fully
// deterministic), O3 per-operation results equal to a solo control run, O4 no
// panic.
package e7conc

import (
	"fmt"
	"net/url"
	"os"
	"reflect"
	"sort"
	"strings"

	"github.com/mfcochauxlaberge/jsonapi"

	"verifsim/core"
	"verifsim/world"
)

// Engine is E7.
type Engine struct{}

// Name implements core.Engine.
func (Engine) Name() string { return "E7-conc" }

// Runs implements core.Engine.
func (Engine) Runs(prop, tier string) int {
	if tier == "thorough" {
		return 160000
	}

	return 4000
}

// RaceLogPrefix is the GORACE log_path the workers run with.
func raceLogPrefix() string { return os.Getenv("VERIF_RACE_LOG") }

// WorkerEnv implements the optional core interface: race reports go to a file
// the worker reads back after every run; no exit sleep.
func (Engine) WorkerEnv(tmp string, index int) []string {
	p := fmt.Sprintf("%s/race-%d", tmp, index)

	return []string{"VERIF_RACE_LOG=" + p, "GORACE=log_path=" + p + " halt_on_error=0 atexit_sleep_ms=0 exitcode=0"}
}

// RunsPerProcess: short-lived worker processes, so that package-level state that is
// initialised lazily (and races only the first time it is used) is cold often.
func (Engine) RunsPerProcess() int { return 25 }

// NoInProcessShrink: a race report cannot be re-evaluated in the same process.
func (Engine) NoInProcessShrink(sig string) bool { return strings.Contains(sig, "|no-data-race|") }

// ReplayAttempts: race reports are sound but depend on sync.Pool edges.
func (Engine) ReplayAttempts(sig string) int {
	if strings.Contains(sig, "|no-data-race|") {
		return 5
	}

	return 1
}

// Describe implements core.Engine.
func (Engine) Describe(prop string) core.Description {
	return core.Description{
		Level: "exploration",
		Real: []string{
			"caller tasks: real goroutines running jsonapi.NewURLFromRaw, UnmarshalDocument, UnmarshalPartialResource, Schema.GetType(n).New() + Set/Get, MarshalDocument of an own document with an own URL, Schema.GetType, HasType, Check, Rels against one shared *Schema of struct-backed and soft types",
			"the Go race detector (-race build of the instrumented scratch copy and of the engine)",
			"the package's map-range loops under per-task seeded map orders",
		},
		Stub: []string{"the scheduler: one task runs at a time; at every instrumented function entry / loop iteration a seeded policy (uniform, PCT priorities, round-robin quantum, run-to-completion) picks the next task; the token is passed over raw pipes so that no happens-before edge is added"},
		Rule: "one run = one seeded coherent schema (2..5 types; in a quarter of the runs reached through a longer edit history), 2..16 tasks with 1..8 operations each on private inputs (MarshalDocument now and then of a page of 100..500 resources: rarely in the quick tier, one run in four in the thorough tier), one seeded schedule; oracles: O1 race report with a package frame, O2 any change of the deep schema fingerprint (slice header, map identities and contents, rels cache) observed after a scheduler step, O3 every operation's rendered result equals the same operation run alone on an identical fresh schema under the same per-task map orders, O4 no panic; " +
			"non-trivial = at least 2 tasks, 1 context switch and 3 operations; distinct = distinct event-log hash (includes the schedule hash); distinct_model_states counts distinct schedule hashes",
		Assumptions: []string{
			"O1 is sound but incomplete and not perfectly replayable (sync.Pool inside fmt / encoding/json adds real happens-before edges at random in race builds); O2, O3, O4 are deterministic and decide replay",
			"O2 cannot see a write that stores an identical value into the same location, nor state hidden inside a closure (NewFunc's bound zero Wrapper): O1 and O3 cover those",
			"yield points are function entries and loop iterations of the package (instrumented scratch copy); preemption inside a single statement is not simulated but would be reported by O1 when the accesses conflict",
		},
		FaultKinds: []string{"forced-preemption (the scheduler takes the processor away at a yield point)"},
		Probes:     []string{"policy-uniform", "policy-pct", "policy-round-robin", "policy-run-to-completion", "tasks>=8", "op-NewURLFromRaw", "op-UnmarshalDocument", "op-UnmarshalPartialResource", "op-New-Set-Get", "op-MarshalDocument", "op-GetType", "op-HasType", "op-Check", "op-Rels", "op-Wrap-own-struct", "marshal-of-a-large-page", "schema-built-through-edit-history", "schema-with-a-relationship-without-FromType", "cold-start-run", "cold-start-run-first-in-its-process", "context-switch-inside-Rels", "race-log-checked", "schema-with-dangling-target"},
	}
}

func viol(clause, site, input, format string, a ...interface{}) *core.Violation {
	return &core.Violation{Property: "C12", Clause: clause, Site: site, Input: input, Message: fmt.Sprintf(format, a...)}
}

// ---------------------------------------------------------------------------------------------
// O2: deep fingerprint of everything reachable from the shared *Schema

type fingerprint struct {
	ident   []uintptr // slice header, map identities, NewFunc code pointers
	content string
}

func fp(s *jsonapi.Schema, full bool) fingerprint {
	var f fingerprint

	sv := reflect.ValueOf(s).Elem()
	tv := sv.FieldByName("Types")
	f.ident = append(f.ident, tv.Pointer(), uintptr(tv.Len()), uintptr(tv.Cap()))

	var sb strings.Builder

	for i := range s.Types {
		t := &s.Types[i]
		f.ident = append(f.ident, reflect.ValueOf(t.Attrs).Pointer(), uintptr(len(t.Attrs)), reflect.ValueOf(t.Rels).Pointer(), uintptr(len(t.Rels)))

		if t.NewFunc != nil {
			f.ident = append(f.ident, reflect.ValueOf(t.NewFunc).Pointer())
		} else {
			f.ident = append(f.ident, 0)
		}

		if !full {
			sb.WriteString(t.Name)
			continue
		}

		fmt.Fprintf(&sb, "type %q {", t.Name)

		an := make([]string, 0, len(t.Attrs))
		for k := range t.Attrs {
			an = append(an, k)
		}

		sort.Strings(an)

		for _, k := range an {
			fmt.Fprintf(&sb, " %q=%+v", k, t.Attrs[k])
		}

		rn := make([]string, 0, len(t.Rels))
		for k := range t.Rels {
			rn = append(rn, k)
		}

		sort.Strings(rn)

		for _, k := range rn {
			fmt.Fprintf(&sb, " %q=%+v", k, t.Rels[k])
		}

		sb.WriteString(" }")
	}

	// unexported state (today: the rels cache)
	for i := 0; i < sv.NumField(); i++ {
		fv := sv.Field(i)
		if sv.Type().Field(i).Name == "Types" {
			continue
		}

		switch fv.Kind() {
		case reflect.Map:
			f.ident = append(f.ident, fv.Pointer(), uintptr(fv.Len()))

			if full {
				keys := fv.MapKeys()
				ks := make([]string, len(keys))

				for j, k := range keys {
					ks[j] = fmt.Sprint(k) + "=" + fmt.Sprint(fv.MapIndex(k))
				}

				sort.Strings(ks)
				fmt.Fprintf(&sb, " field %s=%v", sv.Type().Field(i).Name, ks)
			}
		case reflect.Slice, reflect.Ptr, reflect.Func, reflect.Chan, reflect.UnsafePointer:
			f.ident = append(f.ident, fv.Pointer())
		default:
			if full {
				fmt.Fprintf(&sb, " field %s=%v", sv.Type().Field(i).Name, fv)
			}
		}
	}

	f.content = sb.String()

	return f
}

func (f fingerprint) diff(g fingerprint) string {
	if len(f.ident) != len(g.ident) {
		return "shape of the schema changed"
	}

	for i := range f.ident {
		if f.ident[i] != g.ident[i] {
			return "identity / length of a slice or map reachable from the schema changed"
		}
	}

	if f.content != g.content {
		return "content changed"
	}

	return ""
}

// ---------------------------------------------------------------------------------------------
// operations

type op struct {
	kind string
	desc string
	run  func(s *jsonapi.Schema) string // returns the rendered result
}

func renderRes(r jsonapi.Resource) string {
	if r == nil {
		return "<nil resource>"
	}

	return world.Observe(r).String(false)
}

func renderDoc(d *jsonapi.Document, err error) string {
	if err != nil {
		return "error: " + err.Error()
	}

	var sb strings.Builder

	switch x := d.Data.(type) {
	case nil:
		sb.WriteString("data=nil")
	case jsonapi.Resource:
		sb.WriteString("data=" + renderRes(x))
	case jsonapi.Collection:
		fmt.Fprintf(&sb, "data=[%d]", x.Len())

		for i := 0; i < x.Len(); i++ {
			sb.WriteString(" " + renderRes(x.At(i)))
		}
	}

	for _, r := range d.Included {
		sb.WriteString(" incl " + renderRes(r))
	}

	fmt.Fprintf(&sb, " meta=%v errors=%d", d.Meta, len(d.Errors))

	return sb.String()
}

func typeText(t jsonapi.Type) string {
	var sb strings.Builder

	fmt.Fprintf(&sb, "type %q", t.Name)

	an := make([]string, 0, len(t.Attrs))
	for k := range t.Attrs {
		an = append(an, k)
	}

	sort.Strings(an)

	for _, k := range an {
		fmt.Fprintf(&sb, " %q=%+v", k, t.Attrs[k])
	}

	rn := make([]string, 0, len(t.Rels))
	for k := range t.Rels {
		rn = append(rn, k)
	}

	sort.Strings(rn)

	for _, k := range rn {
		fmt.Fprintf(&sb, " %q=%+v", k, t.Rels[k])
	}

	return sb.String()
}

// drawOps draws one task's private operation list. Everything random is drawn
// here, on the driver, before any task runs; payloads are produced with a
// private twin of the schema so that tasks only ever read the shared one.
func drawOps(t *core.Tape, spec *world.SchemaSpec, twin *jsonapi.Schema, cold bool) []op {
	n := t.Range(1, t.Bound(8, 16))
	ops := make([]op, 0, n)

	payload := func(kinds []string) (*world.DocSpec, []byte) {
		ds := world.DrawDoc(t, spec, world.DocOptions{Kinds: kinds, MaxPrimary: 3, MaxIncluded: 2, DistinctIncl: true, AllFields: t.Bool(1, 2)})

		if cold {
			// written by hand: one resource, or null
			if len(ds.Primary) == 0 {
				return ds, []byte(`{"data":null}`)
			}

			return ds, append(append([]byte(`{"data":`), ds.Primary[0].HandPayload(nil)...), '}')
		}

		doc, u, err := ds.Materialise(twin, world.MatOptions{})
		if err != nil {
			return ds, nil
		}

		b, err := jsonapi.MarshalDocument(doc, u)
		if err != nil {
			return ds, nil
		}

		return ds, b
	}

	for i := 0; i < n; i++ {
		switch k := t.Draw(10); k {
		case 0:
			ds := world.DrawDoc(t, spec, world.DocOptions{MaxPrimary: 1, MaxIncluded: 0})
			raw := ds.RawURL(nil)

			switch t.Draw(8) {
			case 0:
				raw += "&nosuchparam=1&alsonot=2"
			case 1:
				// an unknown type in the path; the name is fresh so that process-wide state keyed by it is cold
				raw = fmt.Sprintf("/nosuch%d/1", t.Draw(1<<20))
			case 2:
				raw += fmt.Sprintf("&fields%%5Bghost%d%%5D=x", t.Draw(1<<20))
			case 3:
				raw += fmt.Sprintf("&sort=-nosuch%d,id&include=nope%d", t.Draw(1<<20), t.Draw(1<<20))
			case 4, 5:
				// a filter object whose text no request has carried before (whatever the library
				// remembers about filters it has parsed is cold for it)
				if !strings.Contains(raw, "filter=") {
					raw += "&filter=" + url.QueryEscape(fmt.Sprintf(`{"f":"id","o":"=","v":"v%d"}`, t.Draw(1<<20)))
				}
			case 6:
				// an inclusion path of one or two relationships from the document's type
				if main := ds.MainType(); main != nil && len(main.Rels) > 0 {
					r := main.Rels[t.Draw(len(main.Rels))]
					path := r.Name

					if next := spec.Type(r.ToType); next != nil && len(next.Rels) > 0 && t.Bool(1, 2) {
						path += "." + next.Rels[t.Draw(len(next.Rels))].Name
					}

					raw += "&include=" + url.QueryEscape(path)
				}
			}

			// the one-way relationship whose FromType was left empty (see run.go), included
			if t.Bool(1, 6) {
				raw = "/" + url.PathEscape(spec.Types[0].Name) + "?include=no-from-type"
			}

			ops = append(ops, op{"NewURLFromRaw", fmt.Sprintf("NewURLFromRaw(%q)", raw), func(s *jsonapi.Schema) string {
				u, err := jsonapi.NewURLFromRaw(s, raw)
				if err != nil {
					return "error: " + err.Error()
				}

				return u.String() + fmt.Sprintf(" type=%q col=%v sort=%q include=%v", u.ResType, u.IsCol, u.Params.SortingRules, u.Params.Include)
			}})
		case 1:
			_, b := payload(nil)
			if b == nil {
				b = []byte(`{"data":null}`)
			}

			ops = append(ops, op{"UnmarshalDocument", fmt.Sprintf("UnmarshalDocument(%d bytes)", len(b)), func(s *jsonapi.Schema) string {
				return renderDoc(jsonapi.UnmarshalDocument(b, s))
			}})
		case 2:
			ts := spec.Types[t.Draw(len(spec.Types))]
			rs := world.DrawResSpec(t, ts, world.PlainIDs[t.Draw(len(world.PlainIDs))])
			sel := ts.Fields()[:t.Draw(len(ts.Fields())+1)]

			var b []byte

			if cold {
				b = rs.HandPayload(append([]string{}, sel...))
			} else {
				b = jsonapi.MarshalResource(rs.Materialise(twin), "", sel, map[string][]string{ts.Name: ts.Fields()})
			}

			ops = append(ops, op{"UnmarshalPartialResource", fmt.Sprintf("UnmarshalPartialResource(%d bytes, type %q)", len(b), ts.Name), func(s *jsonapi.Schema) string {
				r, err := jsonapi.UnmarshalPartialResource(b, s)
				if err != nil {
					return "error: " + err.Error()
				}

				return renderRes(r)
			}})
		case 3:
			ts := spec.Types[t.Draw(len(spec.Types))]
			rs := world.DrawResSpec(t, ts, world.PlainIDs[t.Draw(len(world.PlainIDs))])

			other := spec.Types[t.Draw(len(spec.Types))].Name
			retype := t.Bool(1, 3)

			ops = append(ops, op{"New-Set-Get", fmt.Sprintf("GetType(%q).New() + Set/Get (retype to %q: %v)", ts.Name, other, retype), func(s *jsonapi.Schema) string {
				typ := s.GetType(ts.Name)
				r := typ.New()
				r.Set("id", rs.ID)

				for _, f := range ts.Fields() {
					r.Set(f, world.CloneValue(rs.Vals[f]))
				}

				out := renderRes(r)

				// the task's own soft resource may be given another type of the schema
				if sr, ok := r.(*jsonapi.SoftResource); ok && retype {
					tb := s.GetType(other)
					sr.SetType(&tb)
					out += " | retyped: " + renderRes(sr)
				}

				return out
			}})
		case 4:
			do := world.DocOptions{MaxPrimary: 3, MaxIncluded: 2, DistinctIncl: true, Errors: true}
			if t.Bool(1, t.Bound(60, 15)) {
				// a page of a few hundred resources (tens of KiB of payload): whatever depends on
				// sizes inside the library (buffers, thresholds) is on its other side here
				do = world.DocOptions{Kinds: []string{"softcollection", "resources", "wrappercollection"}, MinPrimary: 100, MaxPrimary: 500, AllFields: true}
			}

			ds := world.DrawDoc(t, spec, do)

			ops = append(ops, op{"MarshalDocument", fmt.Sprintf("MarshalDocument(own %s document, %d primary resources%s)", ds.Kind, len(ds.Primary), map[bool]string{true: ", large page", false: ""}[do.MinPrimary > 0]), func(s *jsonapi.Schema) string {
				doc, u, err := ds.Materialise(s, world.MatOptions{})
				if err != nil {
					return "refused: " + err.Error()
				}

				b, err := jsonapi.MarshalDocument(doc, u)
				if err != nil {
					return "error: " + err.Error()
				}

				return string(b)
			}})
		case 5:
			name := spec.Types[t.Draw(len(spec.Types))].Name
			if t.Bool(1, 4) {
				name = "absent"
			}

			ops = append(ops, op{"GetType", fmt.Sprintf("GetType(%q)", name), func(s *jsonapi.Schema) string { return typeText(s.GetType(name)) }})
		case 6:
			name := spec.Types[t.Draw(len(spec.Types))].Name
			if t.Bool(1, 4) {
				name = "absent"
			}

			ops = append(ops, op{"HasType", fmt.Sprintf("HasType(%q)", name), func(s *jsonapi.Schema) string { return fmt.Sprint(s.HasType(name)) }})
		case 7:
			ops = append(ops, op{"Check", "Check()", func(s *jsonapi.Schema) string {
				errs := s.Check()
				msgs := make([]string, len(errs))

				for i, e := range errs {
					msgs[i] = e.Error()
				}

				sort.Strings(msgs)

				return fmt.Sprintf("%d errors %q", len(errs), msgs)
			}})
		case 8:
			if t.Bool(1, 2) {
				// a struct type of the task's own that no schema has seen: wrap it and
				// marshal it (the type is created here; it is wrapped for the first time
				// by the task)
				fts := &world.TypeSpec{Name: fmt.Sprintf("own%d", t.Draw(1<<30)), Struct: true, Attrs: []world.AttrSpec{{Name: "v", Kind: t.Range(1, 14)}, {Name: "w", Kind: world.KBytes, Nullable: true}}}
				frs := world.DrawResSpec(t, fts, "o1")
				_ = fts.GoStruct()

				ops = append(ops, op{"Wrap-own-struct", fmt.Sprintf("Wrap(own struct %q) + MarshalResource", fts.Name), func(s *jsonapi.Schema) string {
					w := frs.Wrapped()
					return string(jsonapi.MarshalResource(w, "/p", []string{"v", "w"}, nil)) + " " + renderRes(w.Copy())
				}})

				continue
			}

			fallthrough
		default:
			ops = append(ops, op{"Rels", "Rels()", func(s *jsonapi.Schema) string {
				var sb strings.Builder

				for _, r := range s.Rels() {
					fmt.Fprintf(&sb, "{%q.%q one=%v -> %q.%q one=%v} ", r.FromType, r.FromName, r.ToOne, r.ToType, r.ToName, r.FromOne)
				}

				return sb.String()
			}})
		}
	}

	return ops
}
