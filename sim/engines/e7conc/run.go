package e7conc

import (
	"fmt"
	"os"
	"sort"
	"strings"

	"github.com/mfcochauxlaberge/jsonapi"

	"verifsim/core"
	"verifsim/sched"
	"verifsim/world"
)

const pkgPrefix = "github.com/mfcochauxlaberge/jsonapi."

// race log reading: the detector appends reports to <prefix>.<pid>.
var raceOffset int64

func raceLogPath() string {
	p := raceLogPrefix()
	if p == "" {
		return ""
	}

	return fmt.Sprintf("%s.%d", p, os.Getpid())
}

// newRaceReports returns the reports appended since the last call.
func newRaceReports() []string {
	p := raceLogPath()
	if p == "" {
		return nil
	}

	b, err := os.ReadFile(p)
	if err != nil || int64(len(b)) <= raceOffset {
		return nil
	}

	text := string(b[raceOffset:])
	raceOffset = int64(len(b))

	var out []string

	for _, blk := range strings.Split(text, "==================") {
		if strings.Contains(blk, "DATA RACE") {
			out = append(out, blk)
		}
	}

	return out
}

// raceFuncs extracts, for each of the two accesses of a report, the innermost
// frame that belongs to the package (not to the injected sim* helpers).
func raceFuncs(report string) (funcs []string, harnessOnly bool) {
	sections := strings.Split(strings.TrimSpace(report), "\n\n")

	for _, sec := range sections {
		first := strings.TrimSpace(strings.SplitN(sec, "\n", 2)[0])
		if !(strings.HasPrefix(first, "Write at") || strings.HasPrefix(first, "Read at") || strings.HasPrefix(first, "Previous write at") ||
			strings.HasPrefix(first, "Previous read at") || strings.HasPrefix(first, "WARNING: DATA RACE")) {
			continue
		}

		for _, line := range strings.Split(sec, "\n") {
			l := strings.TrimSpace(line)
			if !strings.HasPrefix(l, pkgPrefix) {
				continue
			}

			fn := strings.TrimPrefix(l, pkgPrefix)
			if i := strings.Index(fn, "("); i > 0 && !strings.HasPrefix(fn, "(") {
				fn = fn[:i]
			} else if strings.HasPrefix(fn, "(") {
				// method: (*T).Name()
				if j := strings.LastIndex(fn, "("); j > 0 {
					fn = fn[:j]
				}
			}

			if strings.HasPrefix(fn, "sim") {
				continue
			}

			funcs = append(funcs, fn)

			break
		}
	}

	sort.Strings(funcs)

	return funcs, len(funcs) == 0
}

// Run implements core.Engine.
func (Engine) Run(prop string, t *core.Tape, st *core.Stats) *core.Violation {
	v := run(t, st)
	if v != nil && !st.Fail(v) {
		return nil
	}

	return v
}

// runsInProcess counts the runs this process has executed (reach probe only:
// nothing the run does depends on it).
var runsInProcess int

func run(t *core.Tape, st *core.Stats) *core.Violation {
	// Cold start: in an eighth of the runs the driver runs no library code before the
	// tasks start other than building the schema (soft types only, payloads written
	// by hand), so that state the library fills lazily on first use is still empty
	// when the tasks race for it — in the runs that are the first of their worker
	// process (worker processes live for 25 runs).
	cold := t.Bool(1, 8)
	so := world.SchemaOptions{MinTypes: 2, MaxTypes: 5, MaxAttrs: 5, MaxRels: 3, Names: world.NamesPlain, AllowStruct: true, ForceStruct: -1, TwoWay: true}

	if cold {
		so.ForceStruct = 0
		st.Inc("probe:cold-start-run")

		if runsInProcess == 0 {
			st.Inc("probe:cold-start-run-first-in-its-process")
		}
	}

	runsInProcess++

	spec := world.DrawSchema(t, so)

	// "every schema": some have a relationship whose target type does not exist
	dangling := t.Bool(1, 4)
	if dangling {
		st.Inc("probe:schema-with-dangling-target")
	}

	// "once a schema has been built": in a quarter of the runs through a longer edit history
	viaHistory := t.Bool(1, 4)
	histSeed := t.Seed64()

	if viaHistory {
		st.Inc("probe:schema-built-through-edit-history")
	}

	noFromType := t.Bool(1, 3)
	if noFromType {
		st.Inc("probe:schema-with-a-relationship-without-FromType")
	}

	build := func() (*jsonapi.Schema, error, *core.Panic) {
		var (
			s   *jsonapi.Schema
			err error
		)

		p := core.Call(func() {
			if viaHistory {
				// the same longer edit history for the shared schema, the twin and the solo copy
				s, _, err = spec.BuildSchemaHist(core.NewTape(histSeed))
			} else {
				s, err = spec.BuildSchema(nil)
			}

			if err == nil && dangling {
				_ = s.AddRel(spec.Types[0].Name, jsonapi.Rel{FromType: spec.Types[0].Name, FromName: "dangling-rel", ToType: "nowhere", ToName: "back"})
			}

			if err == nil && noFromType {
				// a one-way relationship written by hand without FromType (AddRel and Check accept it)
				_ = s.AddRel(spec.Types[0].Name, jsonapi.Rel{FromName: "no-from-type", ToType: spec.Types[len(spec.Types)-1].Name, ToOne: true})
			}
		})

		return s, err, p
	}

	shared, err, p := build()
	if p != nil {
		return viol("no-panic", p.Func, "build-schema:"+p.Class, "building the schema panicked: %s", p.Value)
	}

	if err != nil {
		st.Inc("probe:schema-refused")
		return nil
	}

	twin, _, _ := build() // for preparing payloads
	solo, _, _ := build() // for the sequential control run

	// tasks and their private operations
	cfg := sched.Config{Tasks: t.Range(2, 4), MaxSteps: 20000}
	if t.Bool(1, 4) {
		cfg.Tasks = t.Range(5, sched.MaxTasks)
	}

	if cfg.Tasks >= 8 {
		st.Inc("probe:tasks>=8")
	}

	tasks := make([][]op, cfg.Tasks)
	nops := 0

	for i := range tasks {
		var ops []op

		if p := core.Call(func() { ops = drawOps(t, spec, twin, cold) }); p != nil {
			// preparing inputs runs library code sequentially on a private schema; a
			// panic there is not a C12 matter
			st.Inc("probe:input-preparation-panicked")
			return nil
		}

		tasks[i] = ops
		nops += len(ops)
		cfg.MapSeeds[i] = t.Seed64()
		cfg.MapPol[i] = t.Draw(4)
	}

	cfg.Policy = t.Draw(sched.NumPolicies)
	cfg.Seed = t.Seed64()
	cfg.Quantum = t.Range(1, 40)

	for i, n := 0, t.Draw(4); i < n; i++ {
		cfg.Change = append(cfg.Change, uint32(t.Draw(3000)))
	}

	for i, n := 0, t.Draw(24); i < n; i++ {
		cfg.Prefix = append(cfg.Prefix, uint32(t.Draw(sched.MaxTasks)))
	}

	st.Inc("probe:policy-" + sched.PolicyNames[cfg.Policy])
	t.Logf("schema: %d types; %d tasks, %d operations, policy %s quantum %d change %v prefix %v", len(spec.Types), cfg.Tasks, nops, sched.PolicyNames[cfg.Policy], cfg.Quantum, cfg.Change, cfg.Prefix)

	// the concurrent run
	base := fp(shared, true)
	results := make([][]string, cfg.Tasks)
	panics := make([][]*core.Panic, cfg.Tasks)

	for i := range results {
		results[i] = make([]string, len(tasks[i]))
		panics[i] = make([]*core.Panic, len(tasks[i]))
	}

	// write detector state: one slot per task, written only by that task
	type detect struct {
		step   int
		global int
		what   string
		op     int
	}

	var found [sched.MaxTasks]detect

	curOp := make([]int, cfg.Tasks)
	inRels := make([]bool, cfg.Tasks)
	switchedInRels := make([]bool, cfg.Tasks)
	stepNo := make([]int, cfg.Tasks)

	step := func(task int) {
		stepNo[task]++

		if found[task].what != "" {
			return
		}

		if d := base.diff(fp(shared, false)); d != "" && !strings.HasPrefix(d, "content") {
			found[task] = detect{step: stepNo[task], global: sched.StepNo(), what: d, op: curOp[task]}
		}

		if inRels[task] {
			switchedInRels[task] = true
		}
	}

	body := func(task int) {
		for j, o := range tasks[task] {
			curOp[task] = j
			inRels[task] = o.kind == "Rels"
			o := o
			j := j

			panics[task][j] = core.Call(func() { results[task][j] = o.run(shared) })
			inRels[task] = false

			// full content check at operation boundaries
			if found[task].what == "" {
				if d := base.diff(fp(shared, true)); d != "" {
					found[task] = detect{step: stepNo[task], global: sched.StepNo(), what: d, op: j}
				}
			}
		}
	}

	jsonapi.SimMapOrder = sched.MapOrder
	jsonapi.SimYieldHook = sched.Yield

	ss := sched.Run(cfg, body, step)

	jsonapi.SimMapOrder = nil
	jsonapi.SimYieldHook = nil

	// solo control run: every task's operations alone, in order, on an identical
	// fresh schema, under the task's own map-order stream. It comes after the
	// concurrent run, so that process-wide state a tree may keep (lazily filled
	// package-level caches) is cold when the tasks meet it.
	soloRes := make([][]string, cfg.Tasks)

	jsonapi.SimMapOrder = sched.MapOrder

	for i, ops := range tasks {
		sched.SoloTask(cfg, i)

		soloRes[i] = make([]string, len(ops))

		for j, o := range ops {
			o := o
			j := j

			if p := core.Call(func() { soloRes[i][j] = o.run(solo) }); p != nil {
				soloRes[i][j] = "PANIC " + p.Func + ": " + p.Class
			}
		}
	}

	jsonapi.SimMapOrder = nil

	st.Steps += int64(ss.Steps)
	st.MOApplied += ss.MapApplied
	st.MONonIdent += ss.MapNonIdentity
	st.Add("context-switches", int64(ss.Switches))
	st.Add("fault:forced-preemption (the scheduler takes the processor away at a yield point)", int64(ss.Switches))
	st.State(ss.SchedHash)

	if ss.OverBudget {
		st.Inc("probe:step-budget-exhausted")
	}

	for i := range tasks {
		for _, o := range tasks[i] {
			st.Inc("op:" + o.kind)
			st.Inc("probe:op-" + o.kind)

			if strings.Contains(o.desc, "large page") {
				st.Inc("probe:marshal-of-a-large-page")
			}
		}

		if switchedInRels[i] {
			st.Inc("probe:context-switch-inside-Rels")
		}
	}

	t.Logf("schedule: %d steps, %d context switches, hash %016x", ss.Steps, ss.Switches, ss.SchedHash)

	for i := range tasks {
		for j, o := range tasks[i] {
			t.Logf("task %d op %d %s -> %s", i, j, o.desc, clip(results[i][j], 300))
		}
	}

	if cfg.Tasks >= 2 && ss.Switches >= 1 && nops >= 3 {
		st.MarkNonTrivial()
	}

	// O4 panics
	for i := range tasks {
		for j, o := range tasks[i] {
			if p := panics[i][j]; p != nil {
				if strings.HasPrefix(soloRes[i][j], "PANIC ") {
					// the same operation panics when run alone: not a sharing problem (C05/C07 territory)
					st.Inc("probe:operation-panics-also-alone")
					continue
				}

				return viol("no-panic", p.Func, o.kind+":"+p.Class, "task %d: %s panicked under the schedule but not alone: %s", i, o.desc, p.Value)
			}
		}
	}

	// O2 write detector
	first := -1

	for i := 0; i < cfg.Tasks; i++ {
		if found[i].what != "" && (first < 0 || found[i].global < found[first].global) {
			first = i
		}
	}

	if first >= 0 {
		// the task that was running when the change was first observed made it:
		// exactly one task runs at a time and the check follows every step
		i := first
		{
			o := tasks[i][found[i].op]

			return viol("schema-unchanged", o.kind, "shared-write", "the shared schema changed while task %d ran %s (its step %d): %s\n    before: %s\n    after:  %s",
				i, o.desc, found[i].step, found[i].what, base.content, fp(shared, true).content)
		}
	}

	if d := base.diff(fp(shared, true)); d != "" {
		return viol("schema-unchanged", "unknown", "shared-write", "the shared schema changed during the run: %s", d)
	}

	// O3 solo oracle
	for i := range tasks {
		for j, o := range tasks[i] {
			if results[i][j] != soloRes[i][j] && !strings.HasPrefix(soloRes[i][j], "PANIC ") {
				return viol("result-equals-solo", o.kind, "interference", "task %d: %s gave another result under the schedule than alone\n    alone:     %s\n    scheduled: %s", i, o.desc, clip(soloRes[i][j], 600), clip(results[i][j], 600))
			}
		}
	}

	// O1 race detector
	st.Inc("probe:race-log-checked")

	for _, rep := range newRaceReports() {
		funcs, harnessOnly := raceFuncs(rep)
		if harnessOnly {
			panic(core.HarnessBug{Value: "race report without a package frame (harness race?):\n" + rep})
		}

		t.Logf("race report: %v", funcs)

		return viol("no-data-race", strings.Join(funcs, "+"), "race-detector", "the race detector reports a data race between caller goroutines:\n%s", clip(rep, 2500))
	}

	return nil
}

func clip(s string, n int) string {
	if len(s) > n {
		return s[:n] + "…"
	}

	return s
}
